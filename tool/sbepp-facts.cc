// sbepp-facts: property-agnostic fact extractor over clang's type-checked AST.
//
// For one translation unit it writes a JSON document with
//   functions : every function *definition* spelled under one of the -root
//               prefixes, including template instantiations and lambdas, with a
//               typed statement/expression tree (resolved callees, implicit
//               casts, constant-folded sub-expressions, macro provenance);
//   records   : classes/structs (incl. class template specialisations) with
//               bases, fields, methods, aliases;
//   ftemplates: function templates with their template parameter lists
//               (defaults printed) -- used for SFINAE guard rules;
//   vars      : namespace/class/function-static variables with initialisers
//               (static tables);
//   enums     : enum declarations with enumerator values.
// Nothing is decided here; rules live in /verif/sa/*.py.

#include "clang/AST/ASTConsumer.h"
#include "clang/AST/ASTContext.h"
#include "clang/AST/DeclTemplate.h"
#include "clang/AST/ExprCXX.h"
#include "clang/AST/Mangle.h"
#include "clang/AST/QualTypeNames.h"
#include "clang/AST/RecursiveASTVisitor.h"
#include "clang/AST/StmtCXX.h"
#include "clang/Basic/Builtins.h"
#include "clang/Frontend/CompilerInstance.h"
#include "clang/Frontend/FrontendAction.h"
#include "clang/Lex/Lexer.h"
#include "clang/Tooling/CommonOptionsParser.h"
#include "clang/Tooling/Tooling.h"
#include "llvm/Support/CommandLine.h"
#include "llvm/Support/JSON.h"
#include "llvm/Support/raw_ostream.h"

#include <map>
#include <set>
#include <string>
#include <vector>

using namespace clang;
using namespace clang::tooling;
namespace json = llvm::json;

static llvm::cl::OptionCategory Cat("sbepp-facts options");
static llvm::cl::opt<std::string>
    OutPath("o", llvm::cl::desc("output JSON file"), llvm::cl::Required,
            llvm::cl::cat(Cat));
static llvm::cl::list<std::string>
    Roots("root", llvm::cl::desc("path prefix of files of interest"),
          llvm::cl::cat(Cat));
static llvm::cl::opt<bool>
    NoPatterns("no-patterns",
               llvm::cl::desc("skip bodies of uninstantiated templates"),
               llvm::cl::cat(Cat));
static llvm::cl::list<std::string>
    Only("only",
         llvm::cl::desc("only emit bodies of functions whose qualified name "
                        "starts with one of these prefixes (default: all)"),
         llvm::cl::cat(Cat));

namespace {

class Extractor {
public:
  Extractor(ASTContext &Ctx, json::OStream &J)
      : Ctx(Ctx), SM(Ctx.getSourceManager()), J(J), NameGen(Ctx),
        PP(Ctx.getLangOpts()) {
    PP.SuppressTagKeyword = true;
    PP.FullyQualifiedName = true;
    PP.PrintCanonicalTypes = true;
    PP.SuppressUnwrittenScope = false;
    PP.Bool = true;
    PP.SuppressDefaultTemplateArgs = false;
  }

  ASTContext &Ctx;
  SourceManager &SM;
  json::OStream &J;
  ASTNameGenerator NameGen;
  PrintingPolicy PP;
  std::map<const Decl *, unsigned> DeclIds;
  std::set<const FunctionDecl *> EmittedFns;
  std::vector<const FunctionDecl *> PendingLambdas;

  // ---------------------------------------------------------------- helpers
  std::string fileOf(SourceLocation L) {
    if (L.isInvalid())
      return "";
    SourceLocation E = SM.getExpansionLoc(L);
    PresumedLoc P = SM.getPresumedLoc(E, /*UseLineDirectives=*/false);
    if (P.isInvalid())
      return "";
    return P.getFilename();
  }
  unsigned lineOf(SourceLocation L) {
    if (L.isInvalid())
      return 0;
    return SM.getExpansionLineNumber(L);
  }
  bool interesting(SourceLocation L) {
    std::string F = fileOf(L);
    if (F.empty())
      return false;
    if (Roots.empty())
      return true;
    for (auto &R : Roots)
      if (F.compare(0, R.size(), R) == 0)
        return true;
    return false;
  }
  unsigned declId(const Decl *D) {
    auto It = DeclIds.find(D);
    if (It != DeclIds.end())
      return It->second;
    unsigned Id = DeclIds.size() + 1;
    DeclIds[D] = Id;
    return Id;
  }
  std::string ty(QualType T) {
    if (T.isNull())
      return "";
    return T.getCanonicalType().getAsString(PP);
  }
  std::string tyWritten(QualType T) {
    if (T.isNull())
      return "";
    PrintingPolicy P2 = PP;
    P2.PrintCanonicalTypes = false;
    return T.getAsString(P2);
  }
  std::string qname(const NamedDecl *D) {
    std::string S;
    llvm::raw_string_ostream OS(S);
    D->getNameForDiagnostic(OS, PP, /*Qualified=*/true);
    return OS.str();
  }
  std::string keyOf(const Decl *D) {
    if (auto *ND = dyn_cast<NamedDecl>(D)) {
      bool Dep = false;
      if (auto *FD = dyn_cast<FunctionDecl>(ND))
        Dep = FD->isDependentContext() || FD->isTemplated();
      else if (auto *VD = dyn_cast<VarDecl>(ND))
        Dep = VD->getDeclContext()->isDependentContext();
      if (!Dep && (isa<FunctionDecl>(ND) || isa<VarDecl>(ND))) {
        if (auto *VD = dyn_cast<VarDecl>(ND))
          if (VD->isLocalVarDeclOrParm() && !VD->isStaticLocal())
            return "";
        std::string N = NameGen.getName(ND);
        if (!N.empty())
          return N;
      }
      return qname(ND) + "@" + fileOf(D->getLocation()) + ":" +
             std::to_string(lineOf(D->getLocation()));
    }
    return "";
  }
  std::string srcText(SourceRange R) {
    if (R.isInvalid())
      return "";
    CharSourceRange CR = CharSourceRange::getTokenRange(
        SM.getExpansionLoc(R.getBegin()), SM.getExpansionLoc(R.getEnd()));
    bool Invalid = false;
    StringRef S = Lexer::getSourceText(CR, SM, Ctx.getLangOpts(), &Invalid);
    if (Invalid)
      return "";
    if (S.size() > 400)
      return S.substr(0, 400).str();
    return S.str();
  }
  void macroChain(SourceLocation L, std::vector<std::string> &Out) {
    unsigned Guard = 0;
    while (L.isMacroID() && Guard++ < 16) {
      StringRef N = Lexer::getImmediateMacroName(L, SM, Ctx.getLangOpts());
      if (!N.empty() && (Out.empty() || Out.back() != N))
        Out.push_back(N.str());
      L = SM.getImmediateMacroCallerLoc(L);
    }
  }
  void targs(const TemplateArgumentList *TAL, const char *Attr) {
    if (!TAL)
      return;
    J.attributeArray(Attr, [&] {
      for (const TemplateArgument &A : TAL->asArray())
        emitTArg(A);
    });
  }
  void emitTArg(const TemplateArgument &A) {
    switch (A.getKind()) {
    case TemplateArgument::Type:
      J.value(ty(A.getAsType()));
      break;
    case TemplateArgument::Integral: {
      llvm::SmallString<32> S;
      A.getAsIntegral().toString(S, 10);
      std::string V = "#" + std::string(S.str());
      QualType IT = A.getIntegralType();
      if (const auto *ET = IT->getAs<EnumType>()) {
        for (auto *EC : ET->getDecl()->enumerators())
          if (llvm::APSInt::isSameValue(EC->getInitVal(), A.getAsIntegral())) {
            V = "#" + qname(EC);
            break;
          }
      }
      J.value(V);
      break;
    }
    case TemplateArgument::Pack: {
      std::string S = "<pack";
      for (const TemplateArgument &P : A.pack_elements()) {
        S += " ";
        if (P.getKind() == TemplateArgument::Type)
          S += ty(P.getAsType());
        else {
          std::string T;
          llvm::raw_string_ostream OS(T);
          P.print(PP, OS, true);
          S += OS.str();
        }
        S += ";";
      }
      S += ">";
      J.value(S);
      break;
    }
    default: {
      std::string S;
      llvm::raw_string_ostream OS(S);
      A.print(PP, OS, true);
      J.value(OS.str());
    }
    }
  }

  // ------------------------------------------------------ callee description
  void calleeInfo(const char *Attr, const FunctionDecl *FD) {
    if (!FD) {
      return;
    }
    J.attributeObject(Attr, [&] {
      J.attribute("qn", qname(FD));
      J.attribute("name", FD->getNameAsString());
      J.attribute("key", keyOf(FD));
      if (auto *MD = dyn_cast<CXXMethodDecl>(FD)) {
        J.attribute("cls", ty(Ctx.getRecordType(MD->getParent())));
        if (auto *CTS = dyn_cast<ClassTemplateSpecializationDecl>(
                MD->getParent())) {
          J.attribute("cls_tpl",
                      CTS->getSpecializedTemplate()->getQualifiedNameAsString());
          targs(&CTS->getTemplateArgs(), "cls_targs");
        } else {
          J.attribute("cls_tpl", MD->getParent()->getQualifiedNameAsString());
        }
        if (MD->isVirtual())
          J.attribute("virtual", true);
        if (MD->isStatic())
          J.attribute("static", true);
      }
      // unqualified template name, e.g. "sbepp::detail::get_value"
      J.attribute("base", FD->getQualifiedNameAsString());
      if (const TemplateArgumentList *TAL = FD->getTemplateSpecializationArgs())
        targs(TAL, "targs");
      if (unsigned B = FD->getBuiltinID())
        J.attribute("builtin", Ctx.BuiltinInfo.getName(B));
      J.attribute("ret", ty(FD->getReturnType()));
      if (FD->isVariadic())
        J.attribute("variadic", true);
      if (auto *C = dyn_cast<CXXConstructorDecl>(FD)) {
        if (C->isCopyOrMoveConstructor())
          J.attribute("copymove", true);
        if (C->isDefaultConstructor())
          J.attribute("defctor", true);
        if (C->isTrivial())
          J.attribute("trivial", true);
        if (C->isImplicit())
          J.attribute("implicit", true);
        if (C->isInheritingConstructor()) {
          const CXXConstructorDecl *B = C;
          unsigned Guard = 0;
          while (B && B->isInheritingConstructor() && Guard++ < 8)
            B = B->getInheritedConstructor().getConstructor();
          if (B && B != C) {
            J.attribute("inherited_from", keyOf(B));
            J.attribute("inherited_cls", ty(Ctx.getRecordType(B->getParent())));
          }
        }
      }
      if (FD->isDefaulted())
        J.attribute("defaulted", true);
      J.attribute("file", fileOf(FD->getLocation()));
      bool HasBody = false;
      const FunctionDecl *Def = nullptr;
      if (FD->hasBody(Def))
        HasBody = true;
      J.attribute("hasbody", HasBody);
    });
  }

  // ------------------------------------------------------------ expressions
  const Expr *skipTransparent(const Expr *E) {
    while (E) {
      if (auto *P = dyn_cast<ParenExpr>(E))
        E = P->getSubExpr();
      else if (auto *C = dyn_cast<ConstantExpr>(E))
        E = C->getSubExpr();
      else if (auto *M = dyn_cast<MaterializeTemporaryExpr>(E))
        E = M->getSubExpr();
      else if (auto *W = dyn_cast<ExprWithCleanups>(E))
        E = W->getSubExpr();
      else if (auto *B = dyn_cast<CXXBindTemporaryExpr>(E))
        E = B->getSubExpr();
      else if (auto *S = dyn_cast<SubstNonTypeTemplateParmExpr>(E))
        E = S->getReplacement();
      else if (auto *D = dyn_cast<CXXDefaultArgExpr>(E))
        E = D->getExpr();
      else if (auto *D = dyn_cast<CXXDefaultInitExpr>(E))
        E = D->getExpr();
      else
        break;
    }
    return E;
  }

  bool tryConst(const Expr *E, std::string &Out) {
    if (!E || E->isValueDependent() || E->isTypeDependent() ||
        E->containsErrors())
      return false;
    QualType T = E->getType();
    if (T.isNull() || !(T->isIntegralOrEnumerationType()))
      return false;
    if (!E->isPRValue())
      return false;
    Expr::EvalResult R;
    if (!E->EvaluateAsInt(R, Ctx, Expr::SE_NoSideEffects))
      return false;
    llvm::SmallString<32> S;
    R.Val.getInt().toString(S, 10);
    Out = S.str().str();
    return true;
  }

  void stmtAttr(const char *Attr, const Stmt *S) {
    if (!S)
      return;
    J.attributeBegin(Attr);
    emitStmt(S);
    J.attributeEnd();
  }

  void emitChildren(const Stmt *S) {
    J.attributeArray("c", [&] {
      for (const Stmt *C : S->children())
        if (C)
          emitStmt(C);
    });
  }

  void emitVarDecl(const VarDecl *VD) {
    J.object([&] {
      J.attribute("k", "VarDecl");
      J.attribute("name", VD->getNameAsString());
      J.attribute("did", declId(VD));
      J.attribute("t", ty(VD->getType()));
      J.attribute("l", lineOf(VD->getLocation()));
      if (VD->getType()->isReferenceType())
        J.attribute("ref", true);
      if (VD->isStaticLocal())
        J.attribute("static", true);
      if (VD->isConstexpr())
        J.attribute("constexpr", true);
      if (VD->getType().isConstQualified())
        J.attribute("const", true);
      switch (VD->getInitStyle()) {
      case VarDecl::CInit:
        J.attribute("istyle", "c");
        break;
      case VarDecl::CallInit:
        J.attribute("istyle", "call");
        break;
      case VarDecl::ListInit:
        J.attribute("istyle", "list");
        break;
      }
      if (const Expr *I = VD->getInit())
        stmtAttr("init", I);
    });
  }

  void emitStmt(const Stmt *S) {
    if (const auto *E = dyn_cast<Expr>(S)) {
      const Expr *T = skipTransparent(E);
      if (T != E) {
        // keep the information that a default argument was used
        emitStmt(T);
        return;
      }
    }
    J.object([&] { emitStmtBody(S); });
  }

  void emitStmtBody(const Stmt *S) {
    J.attribute("k", S->getStmtClassName());
    J.attribute("l", lineOf(S->getBeginLoc()));
    {
      std::vector<std::string> M;
      macroChain(S->getBeginLoc(), M);
      if (!M.empty())
        J.attributeArray("mac", [&] {
          for (auto &N : M)
            J.value(N);
        });
    }
    if (const auto *E = dyn_cast<Expr>(S)) {
      J.attribute("t", ty(E->getType()));
      if (E->isLValue())
        J.attribute("lv", true);
      else if (E->isXValue())
        J.attribute("xv", true);
      std::string CV;
      if (!isa<IntegerLiteral>(E) && !isa<CXXBoolLiteralExpr>(E) &&
          !isa<CharacterLiteral>(E) && tryConst(E, CV)) {
        J.attribute("cv", CV);
        // a folded constant: keep a short trace of what it was
        if (const auto *U = dyn_cast<UnaryExprOrTypeTraitExpr>(E)) {
          J.attribute("uett", U->getKind() == UETT_SizeOf ? "sizeof" : "other");
          J.attribute("argt", ty(U->getTypeOfArgument()));
        } else if (const auto *DR = dyn_cast<DeclRefExpr>(E)) {
          J.attribute("name", DR->getDecl()->getNameAsString());
          J.attribute("qn", qname(DR->getDecl()));
        }
        J.attribute("src", srcText(E->getSourceRange()));
        // children of folded binary operators stay visible (R-INT needs
        // operand types only for non-constant nodes, so this is cosmetic)
        return;
      }
    }

    if (const auto *IL = dyn_cast<IntegerLiteral>(S)) {
      llvm::SmallString<32> V;
      IL->getValue().toString(V, 10, IL->getType()->isSignedIntegerType());
      J.attribute("cv", V.str());
      J.attribute("src", srcText(IL->getSourceRange()));
      return;
    }
    if (const auto *BL = dyn_cast<CXXBoolLiteralExpr>(S)) {
      J.attribute("cv", BL->getValue() ? "1" : "0");
      return;
    }
    if (const auto *CL = dyn_cast<CharacterLiteral>(S)) {
      J.attribute("cv", std::to_string((long long)CL->getValue()));
      J.attribute("src", srcText(CL->getSourceRange()));
      return;
    }
    if (const auto *FL = dyn_cast<FloatingLiteral>(S)) {
      llvm::SmallString<32> V;
      FL->getValue().toString(V);
      J.attribute("fv", V.str());
      J.attribute("src", srcText(FL->getSourceRange()));
      return;
    }
    if (const auto *SL = dyn_cast<clang::StringLiteral>(S)) {
      if (SL->getCharByteWidth() == 1)
        J.attribute("str", SL->getBytes());
      else
        J.attribute("str", "<wide>");
      return;
    }
    if (isa<CXXNullPtrLiteralExpr>(S) || isa<GNUNullExpr>(S)) {
      J.attribute("cv", "0");
      J.attribute("null", true);
      return;
    }
    if (isa<CXXThisExpr>(S))
      return;
    if (const auto *DR = dyn_cast<DeclRefExpr>(S)) {
      const ValueDecl *D = DR->getDecl();
      J.attribute("name", D->getNameAsString());
      J.attribute("dk", D->getDeclKindName());
      if (isa<FunctionDecl>(D))
        calleeInfo("fn", cast<FunctionDecl>(D));
      else if (const auto *VD = dyn_cast<VarDecl>(D)) {
        J.attribute("did", declId(VD));
        if (!VD->isLocalVarDeclOrParm() || VD->isStaticLocal()) {
          J.attribute("qn", qname(VD));
          J.attribute("global", true);
        }
        if (VD->getType()->isReferenceType())
          J.attribute("ref", true);
      } else if (isa<EnumConstantDecl>(D)) {
        J.attribute("qn", qname(D));
      } else {
        J.attribute("did", declId(D));
        J.attribute("qn", qname(D));
      }
      return;
    }
    if (const auto *ME = dyn_cast<MemberExpr>(S)) {
      const ValueDecl *D = ME->getMemberDecl();
      J.attribute("name", D->getNameAsString());
      J.attribute("dk", D->getDeclKindName());
      if (ME->isArrow())
        J.attribute("arrow", true);
      if (const auto *FD = dyn_cast<FieldDecl>(D)) {
        J.attribute("fieldof", ty(Ctx.getRecordType(FD->getParent())));
        if (FD->getType()->isReferenceType())
          J.attribute("ref", true);
      }
      if (const auto *FN = dyn_cast<FunctionDecl>(D))
        calleeInfo("fn", FN);
      stmtAttr("base", ME->getBase());
      return;
    }
    if (const auto *CE = dyn_cast<CallExpr>(S)) {
      const FunctionDecl *FD = CE->getDirectCallee();
      if (FD)
        calleeInfo("callee", FD);
      const Expr *Obj = nullptr;
      unsigned FirstArg = 0;
      if (const auto *MC = dyn_cast<CXXMemberCallExpr>(CE)) {
        Obj = MC->getImplicitObjectArgument();
        if (const auto *ME =
                dyn_cast<MemberExpr>(MC->getCallee()->IgnoreParens()))
          if (ME->isArrow())
            J.attribute("arrow", true);
      } else if (const auto *OC = dyn_cast<CXXOperatorCallExpr>(CE)) {
        J.attribute("op", getOperatorSpelling(OC->getOperator()));
        if (FD && isa<CXXMethodDecl>(FD) &&
            !cast<CXXMethodDecl>(FD)->isStatic() && CE->getNumArgs() > 0) {
          Obj = CE->getArg(0);
          FirstArg = 1;
        }
      }
      if (Obj)
        stmtAttr("obj", Obj);
      if (!FD)
        stmtAttr("fnexpr", CE->getCallee());
      J.attributeArray("args", [&] {
        for (unsigned I = FirstArg; I < CE->getNumArgs(); ++I)
          emitStmt(CE->getArg(I));
      });
      return;
    }
    if (const auto *CC = dyn_cast<CXXConstructExpr>(S)) {
      calleeInfo("callee", CC->getConstructor());
      J.attribute("ctor", true);
      if (CC->isListInitialization())
        J.attribute("list", true);
      if (CC->isElidable())
        J.attribute("elidable", true);
      J.attributeArray("args", [&] {
        for (const Expr *A : CC->arguments())
          emitStmt(A);
      });
      return;
    }
    if (const auto *IL = dyn_cast<InitListExpr>(S)) {
      const InitListExpr *Sem = IL->isSemanticForm() ? IL : IL->getSemanticForm();
      if (!Sem)
        Sem = IL;
      J.attributeArray("inits", [&] {
        for (const Expr *I : Sem->inits())
          if (I)
            emitStmt(I);
      });
      return;
    }
    if (const auto *SI = dyn_cast<CXXStdInitializerListExpr>(S)) {
      stmtAttr("sub", SI->getSubExpr());
      return;
    }
    if (const auto *CE = dyn_cast<CastExpr>(S)) {
      J.attribute("ck", CE->getCastKindName());
      J.attribute("from", ty(CE->getSubExpr()->getType()));
      if (isa<ImplicitCastExpr>(CE))
        J.attribute("implicit", true);
      if (const auto *EC = dyn_cast<ExplicitCastExpr>(CE))
        J.attribute("written", tyWritten(EC->getTypeAsWritten()));
      stmtAttr("sub", CE->getSubExpr());
      return;
    }
    if (const auto *UO = dyn_cast<UnaryOperator>(S)) {
      J.attribute("op", UnaryOperator::getOpcodeStr(UO->getOpcode()));
      if (UO->isPostfix())
        J.attribute("postfix", true);
      stmtAttr("sub", UO->getSubExpr());
      return;
    }
    if (const auto *BO = dyn_cast<BinaryOperator>(S)) {
      J.attribute("op", BO->getOpcodeStr());
      if (const auto *CA = dyn_cast<CompoundAssignOperator>(BO)) {
        J.attribute("comp_lhs_t", ty(CA->getComputationLHSType()));
        J.attribute("comp_res_t", ty(CA->getComputationResultType()));
      }
      stmtAttr("lhs", BO->getLHS());
      stmtAttr("rhs", BO->getRHS());
      return;
    }
    if (const auto *RW = dyn_cast<CXXRewrittenBinaryOperator>(S)) {
      stmtAttr("sub", RW->getSemanticForm());
      return;
    }
    if (const auto *CO = dyn_cast<ConditionalOperator>(S)) {
      stmtAttr("cond", CO->getCond());
      stmtAttr("then", CO->getTrueExpr());
      stmtAttr("else", CO->getFalseExpr());
      return;
    }
    if (const auto *AS = dyn_cast<ArraySubscriptExpr>(S)) {
      stmtAttr("base", AS->getBase());
      stmtAttr("idx", AS->getIdx());
      return;
    }
    if (const auto *U = dyn_cast<UnaryExprOrTypeTraitExpr>(S)) {
      J.attribute("uett", U->getKind() == UETT_SizeOf ? "sizeof" : "other");
      J.attribute("argt", ty(U->getTypeOfArgument()));
      return;
    }
    if (const auto *LE = dyn_cast<LambdaExpr>(S)) {
      const CXXMethodDecl *Op = LE->getCallOperator();
      if (Op) {
        calleeInfo("callop", Op);
        PendingLambdas.push_back(Op);
      }
      J.attributeArray("captures", [&] {
        for (const LambdaCapture &C : LE->captures()) {
          J.object([&] {
            if (C.capturesThis())
              J.attribute("this", true);
            else if (C.capturesVariable()) {
              J.attribute("name", C.getCapturedVar()->getNameAsString());
              J.attribute("did", declId(C.getCapturedVar()));
            }
            J.attribute("byref", C.getCaptureKind() == LCK_ByRef);
          });
        }
      });
      J.attributeArray("capinits", [&] {
        for (const Expr *I : LE->capture_inits())
          if (I)
            emitStmt(I);
      });
      return;
    }
    if (const auto *TE = dyn_cast<CXXThrowExpr>(S)) {
      stmtAttr("sub", TE->getSubExpr());
      return;
    }
    if (const auto *NE = dyn_cast<CXXNewExpr>(S)) {
      J.attribute("alloct", ty(NE->getAllocatedType()));
      emitChildren(S);
      return;
    }
    if (const auto *DM = dyn_cast<CXXDependentScopeMemberExpr>(S)) {
      J.attribute("name", DM->getMember().getAsString());
      if (!DM->isImplicitAccess())
        stmtAttr("base", DM->getBase());
      return;
    }
    if (const auto *UL = dyn_cast<UnresolvedLookupExpr>(S)) {
      J.attribute("name", UL->getName().getAsString());
      return;
    }
    if (const auto *UM = dyn_cast<UnresolvedMemberExpr>(S)) {
      J.attribute("name", UM->getMemberName().getAsString());
      if (!UM->isImplicitAccess())
        stmtAttr("base", UM->getBase());
      return;
    }
    if (const auto *DS = dyn_cast<DependentScopeDeclRefExpr>(S)) {
      J.attribute("name", DS->getDeclName().getAsString());
      J.attribute("src", srcText(DS->getSourceRange()));
      return;
    }
    if (const auto *UC = dyn_cast<CXXUnresolvedConstructExpr>(S)) {
      J.attribute("written", tyWritten(UC->getTypeAsWritten()));
      emitChildren(S);
      return;
    }

    // ---- statements
    if (const auto *DS = dyn_cast<DeclStmt>(S)) {
      J.attributeArray("decls", [&] {
        for (const Decl *D : DS->decls()) {
          if (const auto *VD = dyn_cast<VarDecl>(D))
            emitVarDecl(VD);
          else if (const auto *DD = dyn_cast<DecompositionDecl>(D))
            emitVarDecl(DD);
          else
            J.object([&] {
              J.attribute("k", D->getDeclKindName());
              if (const auto *ND = dyn_cast<NamedDecl>(D))
                J.attribute("name", ND->getNameAsString());
            });
        }
      });
      return;
    }
    if (const auto *IS = dyn_cast<IfStmt>(S)) {
      if (IS->isConstexpr())
        J.attribute("constexpr", true);
      if (IS->getInit())
        stmtAttr("init", IS->getInit());
      if (const VarDecl *CV = IS->getConditionVariable()) {
        J.attributeBegin("condvar");
        emitVarDecl(CV);
        J.attributeEnd();
      }
      stmtAttr("cond", IS->getCond());
      stmtAttr("then", IS->getThen());
      stmtAttr("else", IS->getElse());
      return;
    }
    if (const auto *FS = dyn_cast<ForStmt>(S)) {
      stmtAttr("init", FS->getInit());
      stmtAttr("cond", FS->getCond());
      stmtAttr("inc", FS->getInc());
      stmtAttr("body", FS->getBody());
      return;
    }
    if (const auto *FR = dyn_cast<CXXForRangeStmt>(S)) {
      stmtAttr("rangestmt", FR->getRangeStmt());
      stmtAttr("beginstmt", FR->getBeginStmt());
      stmtAttr("endstmt", FR->getEndStmt());
      stmtAttr("cond", FR->getCond());
      stmtAttr("inc", FR->getInc());
      stmtAttr("loopvar", FR->getLoopVarStmt());
      stmtAttr("body", FR->getBody());
      return;
    }
    if (const auto *WS = dyn_cast<WhileStmt>(S)) {
      stmtAttr("cond", WS->getCond());
      stmtAttr("body", WS->getBody());
      return;
    }
    if (const auto *DS = dyn_cast<DoStmt>(S)) {
      stmtAttr("cond", DS->getCond());
      stmtAttr("body", DS->getBody());
      return;
    }
    if (const auto *SS = dyn_cast<SwitchStmt>(S)) {
      stmtAttr("cond", SS->getCond());
      stmtAttr("body", SS->getBody());
      return;
    }
    if (const auto *CS = dyn_cast<CaseStmt>(S)) {
      stmtAttr("lhs", CS->getLHS());
      stmtAttr("sub", CS->getSubStmt());
      return;
    }
    if (const auto *DS = dyn_cast<DefaultStmt>(S)) {
      stmtAttr("sub", DS->getSubStmt());
      return;
    }
    if (const auto *RS = dyn_cast<ReturnStmt>(S)) {
      stmtAttr("sub", RS->getRetValue());
      return;
    }
    if (const auto *TS = dyn_cast<CXXTryStmt>(S)) {
      stmtAttr("try", TS->getTryBlock());
      J.attributeArray("handlers", [&] {
        for (unsigned I = 0; I < TS->getNumHandlers(); ++I) {
          const CXXCatchStmt *H = TS->getHandler(I);
          J.object([&] {
            J.attribute("k", "CXXCatchStmt");
            J.attribute("l", lineOf(H->getBeginLoc()));
            J.attribute("caught", H->getCaughtType().isNull()
                                      ? std::string("...")
                                      : ty(H->getCaughtType()));
            if (H->getExceptionDecl())
              J.attribute("did", declId(H->getExceptionDecl()));
            stmtAttr("body", H->getHandlerBlock());
          });
        }
      });
      return;
    }
    emitChildren(S);
  }

  // -------------------------------------------------------------- functions
  bool wanted(const FunctionDecl *FD) {
    if (Only.empty())
      return true;
    std::string Q = FD->getQualifiedNameAsString();
    for (auto &P : Only)
      if (Q.compare(0, P.size(), P) == 0)
        return true;
    return false;
  }

  void templateParams(const TemplateParameterList *TPL, const char *Attr) {
    if (!TPL)
      return;
    J.attributeArray(Attr, [&] {
      for (const NamedDecl *P : *TPL) {
        J.object([&] {
          J.attribute("name", P->getNameAsString());
          if (const auto *TT = dyn_cast<TemplateTypeParmDecl>(P)) {
            J.attribute("kind", "type");
            if (TT->isParameterPack())
              J.attribute("pack", true);
            if (TT->hasDefaultArgument())
              J.attribute("default", tyWritten(TT->getDefaultArgument()));
          } else if (const auto *NT = dyn_cast<NonTypeTemplateParmDecl>(P)) {
            J.attribute("kind", "nontype");
            J.attribute("t", tyWritten(NT->getType()));
            if (NT->hasDefaultArgument())
              J.attribute("default",
                          srcText(NT->getDefaultArgument()->getSourceRange()));
          } else {
            J.attribute("kind", "template");
          }
        });
      }
    });
  }

  void emitFunction(const FunctionDecl *FD) {
    if (!FD->doesThisDeclarationHaveABody())
      return;
    if (!EmittedFns.insert(FD).second)
      return;
    bool Dependent = FD->isDependentContext();
    if (Dependent && NoPatterns)
      return;
    if (!wanted(FD))
      return;
    J.object([&] {
      J.attribute("qn", qname(FD));
      J.attribute("name", FD->getNameAsString());
      J.attribute("base", FD->getQualifiedNameAsString());
      J.attribute("key", keyOf(FD));
      J.attribute("file", fileOf(FD->getLocation()));
      J.attribute("line", lineOf(FD->getLocation()));
      J.attribute("endline", lineOf(FD->getEndLoc()));
      J.attribute("ret", ty(FD->getReturnType()));
      if (FD->getReturnType()->isReferenceType())
        J.attribute("retref", true);
      if (Dependent)
        J.attribute("dependent", true);
      if (FD->isConstexpr())
        J.attribute("constexpr", true);
      if (const auto *FPT = FD->getType()->getAs<FunctionProtoType>())
        if (FPT->getExceptionSpecType() != EST_Unevaluated &&
            FPT->getExceptionSpecType() != EST_Uninstantiated &&
            FPT->isNothrow())
          J.attribute("noexcept", true);
      if (FD->isTemplateInstantiation())
        J.attribute("instantiation", true);
      if (const TemplateArgumentList *TAL = FD->getTemplateSpecializationArgs())
        targs(TAL, "targs");
      if (const auto *MD = dyn_cast<CXXMethodDecl>(FD)) {
        const CXXRecordDecl *RD = MD->getParent();
        J.attribute("cls", ty(Ctx.getRecordType(RD)));
        if (const auto *CTS = dyn_cast<ClassTemplateSpecializationDecl>(RD)) {
          J.attribute("cls_tpl",
                      CTS->getSpecializedTemplate()->getQualifiedNameAsString());
          targs(&CTS->getTemplateArgs(), "cls_targs");
        } else {
          J.attribute("cls_tpl", RD->getQualifiedNameAsString());
        }
        if (RD->isLambda())
          J.attribute("lambda", true);
        if (MD->isConst())
          J.attribute("constmethod", true);
        if (MD->isStatic())
          J.attribute("static", true);
        J.attribute("access", getAccessSpelling(MD->getAccess()));
        if (isa<CXXConstructorDecl>(MD))
          J.attribute("ctor", true);
        if (isa<CXXConversionDecl>(MD))
          J.attribute("conversion", true);
      }
      if (const FunctionTemplateDecl *FT = FD->getDescribedFunctionTemplate())
        templateParams(FT->getTemplateParameters(), "tparams");
      else if (const FunctionTemplateDecl *PT = FD->getPrimaryTemplate())
        templateParams(PT->getTemplateParameters(), "tparams");
      J.attributeArray("params", [&] {
        for (const ParmVarDecl *P : FD->parameters()) {
          J.object([&] {
            J.attribute("name", P->getNameAsString());
            J.attribute("did", declId(P));
            J.attribute("t", ty(P->getType()));
            if (P->getType()->isReferenceType())
              J.attribute("ref", true);
            if (P->hasDefaultArg() && !P->hasUninstantiatedDefaultArg() &&
                !P->hasUnparsedDefaultArg())
              J.attribute("hasdefault", true);
          });
        }
      });
      if (const auto *CD = dyn_cast<CXXConstructorDecl>(FD)) {
        J.attributeArray("inits", [&] {
          for (const CXXCtorInitializer *I : CD->inits()) {
            J.object([&] {
              if (I->isAnyMemberInitializer()) {
                J.attribute("member", I->getAnyMember()->getNameAsString());
              } else if (I->isBaseInitializer()) {
                J.attribute("basecls", ty(QualType(I->getBaseClass(), 0)));
              } else if (I->isDelegatingInitializer()) {
                J.attribute("delegating", true);
              }
              if (I->isWritten())
                J.attribute("written", true);
              stmtAttr("init", I->getInit());
            });
          }
        });
      }
      stmtAttr("body", FD->getBody());
    });
  }

  // ---------------------------------------------------------------- records
  void emitRecord(const CXXRecordDecl *RD) {
    if (!RD->isThisDeclarationADefinition() || RD->isLambda())
      return;
    J.object([&] {
      J.attribute("qn", ty(Ctx.getRecordType(RD)));
      J.attribute("name", RD->getNameAsString());
      J.attribute("tpl", RD->getQualifiedNameAsString());
      J.attribute("file", fileOf(RD->getLocation()));
      J.attribute("line", lineOf(RD->getLocation()));
      if (RD->isDependentContext())
        J.attribute("dependent", true);
      if (const auto *CTS = dyn_cast<ClassTemplateSpecializationDecl>(RD)) {
        targs(&CTS->getTemplateArgs(), "targs");
        if (CTS->isExplicitSpecialization())
          J.attribute("explicit_spec", true);
      }
      if (const ClassTemplateDecl *CT = RD->getDescribedClassTemplate())
        templateParams(CT->getTemplateParameters(), "tparams");
      J.attributeArray("bases", [&] {
        for (const CXXBaseSpecifier &B : RD->bases())
          J.value(ty(B.getType()));
      });
      J.attributeArray("fields", [&] {
        for (const FieldDecl *F : RD->fields()) {
          J.object([&] {
            J.attribute("name", F->getNameAsString());
            J.attribute("t", ty(F->getType()));
            if (F->isMutable())
              J.attribute("mutable", true);
            J.attribute("access", getAccessSpelling(F->getAccess()));
            if (F->hasInClassInitializer() && F->getInClassInitializer())
              stmtAttr("init", F->getInClassInitializer());
          });
        }
      });
      J.attributeArray("aliases", [&] {
        for (const Decl *D : RD->decls()) {
          if (const auto *TD = dyn_cast<TypedefNameDecl>(D)) {
            J.object([&] {
              J.attribute("name", TD->getNameAsString());
              J.attribute("t", ty(TD->getUnderlyingType()));
              J.attribute("written", tyWritten(TD->getUnderlyingType()));
              J.attribute("l", lineOf(TD->getLocation()));
            });
          } else if (const auto *TA = dyn_cast<TypeAliasTemplateDecl>(D)) {
            J.object([&] {
              J.attribute("name", TA->getNameAsString());
              J.attribute("template", true);
              J.attribute("written", tyWritten(TA->getTemplatedDecl()
                                                   ->getUnderlyingType()));
              J.attribute("l", lineOf(TA->getLocation()));
            });
          }
        }
      });
      J.attributeArray("methods", [&] {
        for (const Decl *D : RD->decls()) {
          const FunctionDecl *FD = nullptr;
          const FunctionTemplateDecl *FT = dyn_cast<FunctionTemplateDecl>(D);
          if (FT)
            FD = FT->getTemplatedDecl();
          else if (const auto *UD = dyn_cast<UsingShadowDecl>(D)) {
            (void)UD;
            continue;
          } else
            FD = dyn_cast<FunctionDecl>(D);
          if (!FD || FD->isImplicit())
            continue;
          J.object([&] {
            J.attribute("name", FD->getNameAsString());
            J.attribute("l", lineOf(FD->getLocation()));
            J.attribute("access", getAccessSpelling(D->getAccess()));
            J.attribute("ret", tyWritten(FD->getReturnType()));
            if (const auto *MD = dyn_cast<CXXMethodDecl>(FD)) {
              if (MD->isConst())
                J.attribute("constmethod", true);
              if (MD->isStatic())
                J.attribute("static", true);
            }
            if (isa<CXXConstructorDecl>(FD))
              J.attribute("ctor", true);
            if (FD->isConstexpr())
              J.attribute("constexpr", true);
            if (FD->isDeleted())
              J.attribute("deleted", true);
            if (FD->isDefaulted())
              J.attribute("defaulted", true);
            if (FT)
              templateParams(FT->getTemplateParameters(), "tparams");
            J.attributeArray("params", [&] {
              for (const ParmVarDecl *P : FD->parameters())
                J.object([&] {
                  J.attribute("name", P->getNameAsString());
                  J.attribute("t", tyWritten(P->getType()));
                });
            });
          });
        }
      });
      J.attributeArray("friends", [&] {
        for (const FriendDecl *F : RD->friends()) {
          if (const NamedDecl *ND = F->getFriendDecl())
            J.value(ND->getNameAsString());
        }
      });
    });
  }
};

class Visitor : public RecursiveASTVisitor<Visitor> {
public:
  explicit Visitor(Extractor &X) : X(X) {}
  Extractor &X;
  std::vector<const FunctionDecl *> Fns;
  std::vector<const CXXRecordDecl *> Recs;
  std::vector<const VarDecl *> Vars;
  std::vector<const EnumDecl *> Enums;
  std::vector<const FunctionTemplateDecl *> FTpls;

  bool shouldVisitTemplateInstantiations() const { return true; }
  bool shouldVisitImplicitCode() const { return false; }

  bool VisitFunctionDecl(FunctionDecl *FD) {
    if (FD->doesThisDeclarationHaveABody() && X.interesting(FD->getLocation()))
      Fns.push_back(FD);
    return true;
  }
  bool VisitFunctionTemplateDecl(FunctionTemplateDecl *FT) {
    if (X.interesting(FT->getLocation()))
      FTpls.push_back(FT);
    return true;
  }
  bool VisitCXXRecordDecl(CXXRecordDecl *RD) {
    if (RD->isThisDeclarationADefinition() && X.interesting(RD->getLocation()))
      Recs.push_back(RD);
    return true;
  }
  bool VisitVarDecl(VarDecl *VD) {
    if (isa<ParmVarDecl>(VD))
      return true;
    if (VD->isLocalVarDecl() && !VD->isStaticLocal())
      return true;
    if (VD->hasInit() && X.interesting(VD->getLocation()))
      Vars.push_back(VD);
    return true;
  }
  bool VisitEnumDecl(EnumDecl *ED) {
    if (ED->isThisDeclarationADefinition() && X.interesting(ED->getLocation()))
      Enums.push_back(ED);
    return true;
  }
};

class Consumer : public ASTConsumer {
public:
  void HandleTranslationUnit(ASTContext &Ctx) override {
    std::error_code EC;
    llvm::raw_fd_ostream OS(OutPath, EC);
    if (EC) {
      llvm::errs() << "cannot open " << OutPath << ": " << EC.message() << "\n";
      return;
    }
    json::OStream J(OS);
    Extractor X(Ctx, J);
    Visitor V(X);
    V.TraverseDecl(Ctx.getTranslationUnitDecl());
    J.object([&] {
      J.attribute("errors",
                  (int64_t)Ctx.getDiagnostics().getClient()->getNumErrors());
      J.attributeArray("functions", [&] {
        for (const FunctionDecl *FD : V.Fns)
          X.emitFunction(FD);
        // lambdas discovered while emitting bodies (and lambdas inside them)
        for (size_t I = 0; I < X.PendingLambdas.size(); ++I)
          X.emitFunction(X.PendingLambdas[I]);
      });
      J.attributeArray("records", [&] {
        for (const CXXRecordDecl *RD : V.Recs)
          X.emitRecord(RD);
      });
      J.attributeArray("ftemplates", [&] {
        for (const FunctionTemplateDecl *FT : V.FTpls) {
          const FunctionDecl *FD = FT->getTemplatedDecl();
          J.object([&] {
            J.attribute("qn", FD->getQualifiedNameAsString());
            J.attribute("name", FD->getNameAsString());
            J.attribute("file", X.fileOf(FT->getLocation()));
            J.attribute("line", X.lineOf(FT->getLocation()));
            J.attribute("ret", X.tyWritten(FD->getReturnType()));
            if (const auto *MD = dyn_cast<CXXMethodDecl>(FD)) {
              J.attribute("cls", MD->getParent()->getQualifiedNameAsString());
              if (MD->isConst())
                J.attribute("constmethod", true);
              J.attribute("access", getAccessSpelling(FT->getAccess()));
            }
            X.templateParams(FT->getTemplateParameters(), "tparams");
            J.attributeArray("params", [&] {
              for (const ParmVarDecl *P : FD->parameters())
                J.object([&] {
                  J.attribute("name", P->getNameAsString());
                  J.attribute("t", X.tyWritten(P->getType()));
                });
            });
            J.attribute("hasbody", FD->doesThisDeclarationHaveABody());
          });
        }
      });
      J.attributeArray("vars", [&] {
        for (const VarDecl *VD : V.Vars) {
          if (VD->getDeclContext()->isDependentContext())
            continue;
          J.object([&] {
            J.attribute("qn", X.qname(VD));
            J.attribute("name", VD->getNameAsString());
            J.attribute("t", X.ty(VD->getType()));
            J.attribute("file", X.fileOf(VD->getLocation()));
            J.attribute("line", X.lineOf(VD->getLocation()));
            if (VD->isStaticLocal())
              J.attribute("staticlocal", true);
            if (const auto *FD =
                    dyn_cast_or_null<FunctionDecl>(VD->getParentFunctionOrMethod()))
              J.attribute("infn", X.qname(FD));
            X.stmtAttr("init", VD->getInit());
          });
        }
      });
      J.attributeArray("enums", [&] {
        for (const EnumDecl *ED : V.Enums) {
          J.object([&] {
            J.attribute("qn", X.ty(Ctx.getEnumType(ED)));
            J.attribute("file", X.fileOf(ED->getLocation()));
            J.attribute("line", X.lineOf(ED->getLocation()));
            J.attribute("underlying", X.ty(ED->getIntegerType()));
            J.attribute("scoped", ED->isScoped());
            J.attributeArray("enumerators", [&] {
              for (const EnumConstantDecl *EC : ED->enumerators()) {
                J.object([&] {
                  J.attribute("name", EC->getNameAsString());
                  llvm::SmallString<32> S;
                  EC->getInitVal().toString(S, 10);
                  J.attribute("value", S.str());
                  if (EC->getInitExpr())
                    J.attribute("src",
                                X.srcText(EC->getInitExpr()->getSourceRange()));
                });
              }
            });
          });
        }
      });
    });
    OS << "\n";
  }
};

class Action : public ASTFrontendAction {
public:
  std::unique_ptr<ASTConsumer> CreateASTConsumer(CompilerInstance &,
                                                 StringRef) override {
    return std::make_unique<Consumer>();
  }
};

} // namespace

int main(int argc, const char **argv) {
  auto Parser = CommonOptionsParser::create(argc, argv, Cat);
  if (!Parser) {
    llvm::errs() << llvm::toString(Parser.takeError()) << "\n";
    return 2;
  }
  ClangTool Tool(Parser->getCompilations(), Parser->getSourcePathList());
  int R = Tool.run(newFrontendActionFactory<Action>().get());
  return R;
}

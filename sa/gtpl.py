"""G-TPL: lint of the generator's fmt templates (C07, C09).

  literal    the format argument of fmt::format / fmt::print / throw_error /
             reporter error|warning is a string literal, or a parameter that
             callers bind to one (forwarding wrappers); data used as a format
             string makes fmt throw format_error for any '{' in schema text;
  binding    every replacement field has an argument: named fields <-> fmt::arg
             names, positional fields <-> positional arguments (a missing one
             is a fmt::format_error at run time: uncaught before fix 0400b9c);
  context    placeholder context classes of the emitted C++ (inside a string
             literal, a char literal, a brace initialiser, other) - used by
             G-FLOW a (free text into literals).
"""
import re

from common import *
import gen

WRAPPERS = {"throw_error", "error", "warning", "add_or_throw", "string_to_number_or_throw", "report_error", "report_warning"}


def format_arg(n):
    args = n.get("args") or []
    return args[0] if args else None


def is_literal(a):
    s = gen.strip(a)
    for x in walk(a):
        if "str" in x:
            return True
    return False


def param_ref(a, fn):
    """is the format argument (a forwarded) parameter of the enclosing function?"""
    for x in walk(a):
        if x.get("k") == "DeclRefExpr" and x.get("dk") == "ParmVar":
            return x.get("name")
    return None


def check(chk):
    f = gen.facts()
    calls = gen.format_calls(f)
    # plus reporter.error(...) calls
    for fn in gen.sbeppc_functions(f):
        for n in walk(fn["body"]):
            c = n.get("callee") or {}
            if c.get("name") == "error" and "reporter" in (c.get("cls") or ""):
                calls.append(gen.FormatCall(fn, n, "error"))
    n_lit = n_fwd = 0
    for fc in calls:
        a = format_arg(fc.node)
        key = "%s|%s" % (gen.short(fc.fn), fc.kind)
        if a is None:
            continue
        if is_literal(a):
            n_lit += 1
            tpl = fc.template
            fields = gen.placeholders(tpl)
            named = [x for x in fields if x[0] and not x[0].isdigit()]
            pos = [x for x in fields if not x[0] or x[0].isdigit()]
            errs = []
            for nm, _, _ in named:
                if nm not in fc.named:
                    errs.append("field {%s} has no fmt::arg(\"%s\", ...)" % (nm, nm))
            for nm in fc.named:
                if nm not in [x[0] for x in named]:
                    pass    # unused named argument: harmless
            auto = [x for x in pos if x[0] == ""]
            idx = [int(x[0]) for x in pos if x[0].isdigit()]
            need = max(len(auto), (max(idx) + 1) if idx else 0)
            have = len(fc.positional)
            # a positional pack (Args&&...) forwarded by a wrapper cannot be counted
            pack = any(x.get("k") == "PackExpansionExpr" for p in fc.positional for x in walk(p))
            if need > have and not pack:
                errs.append("%d positional field(s) but %d argument(s)" % (need, have))
            k2 = key + "|" + (tpl[:50].replace("\n", " "))
            if errs:
                chk.violation("G-TPL.binding", k2, fc.where,
                              "format call in %s: %s (fmt::format_error at run time)" % (gen.short(fc.fn), "; ".join(errs)))
            else:
                chk.ok("G-TPL.binding", k2 + "#%s" % fc.line, {"where": fc.where, "fields": len(fields)}, nontrivial=bool(fields))
        else:
            p = param_ref(a, fc.fn)
            if p is not None and gen.short(fc.fn).split("::")[-1] in WRAPPERS | {"operator()"}:
                n_fwd += 1
                chk.ok("G-TPL.literal", key + "#%s" % fc.line, {"where": fc.where, "forwarded_parameter": p}, nontrivial=False)
            else:
                chk.violation("G-TPL.literal", key, fc.where,
                              "%s in %s uses run-time data `%s` as the format string: any '{' or '}' in it (schema names and "
                              "descriptions appear in diagnostics) raises fmt::format_error"
                              % (fc.kind, gen.short(fc.fn), gen.expr_text(a, 0, fc.fn)[:80]))
    chk.floor("G-TPL literal templates", n_lit, 250)
    return n_lit, n_fwd

"""E2.single-pass: an operation instantiated with a single-pass (input) iterator may traverse the range once.

`std::distance(first, last)`, `std::copy(first, last, ...)`, a loop over `first != last` ... each consume the range;
a second traversal of an input iterator finds nothing (or one stale element).  For every library function
instantiated by the harness with `vh::input_it` (category exactly `std::input_iterator_tag`) the parameters of that
type are followed through the body: every std algorithm / iterator utility that receives the parameter, every loop
that advances it and every library callee it is handed to counts as one traversal; more than one is a violation.
Comparisons, copies into the loop variable of the same loop, `std::move` / `std::forward` are not traversals."""
from common import *

NOT_TRAVERSAL = {"move", "forward", "addressof", "operator==", "operator!=", "operator*", "input_it"}


def refs(n, dids):
    for x in walk(n):
        if x.get("k") == "DeclRefExpr" and x.get("did") in dids:
            return True
    return False


def check(chk, lib):
    n = 0
    for fn in lib.eng.fns.values():
        if not fn["file"].endswith("sbepp.hpp") or fn.get("body") is None:
            continue
        ps = [p for p in fn.get("params") or [] if "vh::input_it<" in (p.get("t") or "")]
        if len(ps) < 2:
            continue
        first = ps[0]
        dids = {first.get("did")} if first.get("did") is not None else set()
        if not dids:
            # parameters are referenced by name when the extractor gives no id
            dids = set()
        name = first.get("name")

        def is_first(x):
            return x.get("k") == "DeclRefExpr" and (x.get("did") in dids or (not dids and x.get("name") == name and x.get("dk") == "ParmVar"))
        events = []
        for x in walk(fn["body"]):
            k = x.get("k")
            if k in ("CallExpr", "CXXMemberCallExpr", "CXXOperatorCallExpr", "CXXConstructExpr"):
                c = x.get("callee") or {}
                nm = c.get("name") or ""
                if nm in NOT_TRAVERSAL or nm.startswith("operator"):
                    continue
                args = x.get("args") or []
                if any(any(is_first(y) for y in walk(a)) for a in args):
                    events.append(("call", c.get("base") or nm, x.get("l")))
            elif k in ("ForStmt", "WhileStmt", "DoStmt"):
                parts = [x.get("inc"), x.get("cond")]
                adv = False
                for y in walk(x):
                    if y.get("k") in ("UnaryOperator", "CXXOperatorCallExpr") and (y.get("op") in ("++", "pre++", "post++") or (y.get("callee") or {}).get("name") == "operator++"):
                        if any(is_first(z) for z in walk(y)):
                            adv = True
                if adv:
                    events.append(("loop", k, x.get("l")))
        # a call inside a counted loop is part of that loop's traversal
        loops = [e for e in events if e[0] == "loop"]
        calls = [e for e in events if e[0] == "call"]
        n += 1
        key = "single-pass:%s" % (fn.get("base") or fn["qn"])[:100]
        total = len(loops) + (len(calls) if not loops else len([c for c in calls if False]))
        if loops and calls:
            # calls that receive `first` while a loop also advances it: distinct traversals unless inside the loop body
            inside = set()
            for x in walk(fn["body"]):
                if x.get("k") in ("ForStmt", "WhileStmt", "DoStmt"):
                    for y in walk(x):
                        if y.get("k") in ("CallExpr", "CXXMemberCallExpr"):
                            inside.add(y.get("l"))
            total = len(loops) + len([c for c in calls if c[2] not in inside])
        if total > 1:
            chk.violation("E2.single-pass", key, "%s:%s" % (rel(fn["file"]), fn["line"]),
                          "%s [%s] traverses its single-pass range (%s, ...) %d times (%s): the second traversal of an input "
                          "iterator sees nothing - what is written / returned no longer matches the range"
                          % (fn["qn"][:160], lib.label, name, total, ", ".join("%s@%s" % (e[1], e[2]) for e in events)))
        else:
            chk.ok("E2.single-pass", key + "|" + str(fn.get("line")), {"function": fn["qn"][:120], "traversals": [e[1] for e in events]}, nontrivial=True)
    return n

"""Name rules of the generator (C07): keyword table, identifiers captured by
generated class scopes."""
import json
import re

from common import *
import gen
import gtab

# [lex.key] of C++11..C++23 plus alternative tokens
CPP_KEYWORDS = """alignas alignof and and_eq asm auto bitand bitor bool break case catch char char8_t char16_t char32_t class
compl concept const consteval constexpr constinit const_cast continue co_await co_return co_yield decltype default delete do
double dynamic_cast else enum explicit export extern false float for friend goto if inline int long mutable namespace new
noexcept not not_eq nullptr operator or or_eq private protected public register reinterpret_cast requires return short signed
sizeof static static_assert static_cast struct switch template this thread_local throw true try typedef typeid typename union
unsigned using virtual void volatile wchar_t while xor xor_eq""".split()


def check_keywords(chk):
    f = gen.facts()
    v = gtab.find_table(f, "sbe_schema_cpp_validator::is_cpp_keyword", "cpp_keywords")
    if v is None:
        chk.broke("cpp_keywords table not found")
        return
    rows = gtab.table_rows(v)
    have = {r[0] for r in rows if r}
    where = "%s:%s" % (rel(v["file"]), v["line"])
    missing = [k for k in CPP_KEYWORDS if k not in have]
    if missing:
        chk.violation("G-NAME.keywords", "keywords", where,
                      "is_cpp_keyword lacks %s: a schema entity with that name is accepted and the generated header does not compile" % missing)
    else:
        chk.ok("G-NAME.keywords", "keywords", {"table": len(have), "required": len(CPP_KEYWORDS)})


# identifiers that generated class templates use unqualified in member scope
CAPTURE_CANDIDATES = ["Byte", "args", "last", "v", "c", "header", "T", "Cursor", "Visitor", "Args", "Byte2", "num_in_group"]


def check_name_capture(chk):
    """identifiers used unqualified by templates in a scope where schema-named
    members are visible must be rejected as member names (or not be capturable).
    Decided on the template texts: an identifier is *exposed* when it occurs as a
    bare token in a member function body / declaration of a generated class."""
    f = gen.facts()
    exposed = {}
    for fc in gen.format_calls(f):
        if fc.kind != "format" or not fc.template:
            continue
        raw = gen.render_literal_text(fc.template)
        txt = re.sub("\x00\\d+\x00", " X ", raw)
        if "class " not in txt and "operator()" not in txt and "const noexcept" not in txt:
            continue
        # (1) `Byte` is the template parameter of every generated class: a member *declared* with that name in the
        #     class is ill-formed ([temp.local]) whatever the uses look like
        for m in re.finditer(r"(?<![\w:.>])Byte(?![\w])", txt):
            pre = txt[max(0, m.start() - 12):m.start()]
            if re.search(r"typename\s*$|typename\.\.\.\s*$", pre):
                continue
            exposed.setdefault("Byte", fc.where)
        # (2) a local variable or parameter captures a schema-named member only where the template calls that member
        #     *unqualified* (a placeholder followed by `(` without this-> / . / :: in front) in the same function
        unqualified_member_call = re.search(r"(?<![\w:.>])(?<!->)\x00\d+\x00\s*\(", raw) is not None
        if unqualified_member_call:
            for ident in ("args", "last"):
                if re.search(r"(\.\.\.\s*%s\b|auto\s+%s\s*=|&&\s*%s\b)" % (ident, ident, ident), txt):
                    exposed.setdefault(ident, fc.where)
    # which of them do the validators reject?
    rejected = set()
    for fn in gen.sbeppc_functions(f):
        if "cpp_validator" in fn["qn"] or "is_reserved" in fn["name"]:
            for x in walk(fn["body"]):
                if "str" in x:
                    rejected.add(x["str"])
    v = gtab.find_table(f, "sbe_schema_cpp_validator::is_cpp_keyword", "cpp_keywords")
    if v:
        rejected |= {r[0] for r in gtab.table_rows(v) if r}
    for ident, where in sorted(exposed.items()):
        key = "capture:" + ident
        if ident in rejected:
            chk.ok("G-NAME.capture", key, {"identifier": ident, "rejected_by_validator": True})
        else:
            chk.violation("G-NAME.capture", key, where,
                          "generated class templates use `%s` unqualified where a schema member of that name is in scope, and "
                          "no validator rejects a field/group/data named `%s`: accepted schema, header does not compile"
                          % (ident, ident))
    # a schema <type> becomes a class derived from required_base/optional_base; its own name hides the inherited
    # member of the same name (injected-class-name / constructor), and the templates call v.value() on such objects
    uses_value = None
    for fc in gen.format_calls(f):
        if fc.kind == "format" and fc.template and re.search(r"\bv\.value\(\)", gen.render_literal_text(fc.template)):
            uses_value = fc.where
            break
    # names_generator::get_member_names(const sbe::type&) lists the member names a type class must not share
    # (a clashing class name is mangled)
    mangled_for = set()
    for fn in gen.sbeppc_functions(f):
        if fn["name"] == "get_member_names" and "names_generator" in fn["qn"] and "sbe::type" in ((fn.get("params") or [{}])[0].get("t") or ""):
            for x in walk(fn["body"]):
                if "str" in x:
                    mangled_for.add(x["str"])
    if uses_value:
        key = "capture:value"
        if "value" in rejected:
            chk.ok("G-NAME.capture", key, {"identifier": "value", "rejected_by_validator": True})
        elif "value" in mangled_for:
            chk.ok("G-NAME.capture", key, {"identifier": "value", "class_name_mangled_on_clash": sorted(mangled_for)})
        else:
            chk.violation("G-NAME.capture", key, uses_value,
                          "generated setters call `v.value()` on the schema type's class; a <type name='value'> yields "
                          "`class value : required_base<..., value>` in which `value` names the constructor, and no validator "
                          "rejects that name: accepted schema, header does not compile")
    # (3) namespace-scope capture: generated code inside `<schema>::types` / `<schema>::messages` (and the detail
    #     namespaces) writes `std::...`; a class or alias named `std` declared in those namespaces - a public type or a
    #     message - is found first by the lookup of the name before `::` (functions are ignored by that lookup, types are
    #     not).  Either no template writes an unqualified `std::`, or the validator rejects that name for public types
    #     and for messages.
    uses_std = None
    for fc in gen.format_calls(f):
        if fc.kind == "format" and fc.template and re.search(r"(?<![:\w])std::", gen.render_literal_text(fc.template)):
            uses_std = fc.where
            break
    if uses_std:
        guards = []          # functions that throw under a comparison of a name with "std"
        for fn in gen.sbeppc_functions(f):
            if "cpp_validator" not in fn["qn"]:
                continue
            throws = [x for x in walk(fn["body"]) if (x.get("callee") or {}).get("name") == "throw_error"]
            cmp_std = [x for x in walk(fn["body"]) if x.get("k") in ("BinaryOperator", "CXXOperatorCallExpr") and x.get("op") == "=="
                       and any(y.get("str") == "std" for y in walk(x)) and any(y.get("k") == "MemberExpr" and y.get("name") == "name" for y in walk(x))]
            if throws and cmp_std and fn["name"] != "validate_schema_name" and fn["name"] not in guards:
                guards.append(fn["name"])
        callers = {}
        for fn in f["functions"]:
            if "/sbeppc/src/" not in fn.get("file", "") or fn.get("body") is None:
                continue
            for x in walk(fn["body"]):
                cn = (x.get("callee") or {}).get("name")
                if cn is None and x.get("k") in ("UnresolvedLookupExpr", "UnresolvedMemberExpr") and x.get("name") in guards:
                    cn = x.get("name")      # call inside a generic lambda (`[](const auto& enc)`): still dependent
                if cn in guards:
                    import gguard
                    callers.setdefault(cn, set()).add(fn.get("qn") or fn.get("base") or "")
        who = " ".join(sorted(c for v in callers.values() for c in v))
        covers_types = "validate_type_names" in who
        covers_messages = "validate_message" in who
        key = "capture:std"
        if guards and covers_types and covers_messages:
            chk.ok("G-NAME.capture", key, {"identifier": "std", "rejected_for": "public types and messages", "by": guards}, nontrivial=True)
        else:
            chk.violation("G-NAME.capture", key, uses_std,
                          "generated code in <schema>::types / <schema>::messages writes `std::` unqualified, and the validators do "
                          "not reject a %s named `std` (guards %s, reached from {%s}): such an entity hides the std namespace - "
                          "accepted schema, headers do not compile"
                          % ("public type or message" if not guards else ("message" if covers_types else "public type"), guards, who[:200]))
    for ident in ("args", "last"):
        if ident not in exposed:
            chk.ok("G-NAME.capture", "capture:" + ident, {"identifier": ident, "note": "no template calls a schema-named member unqualified "
                                                                                  "in a function that declares `%s`" % ident})
    chk.floor("capture candidates", len(exposed), 1)

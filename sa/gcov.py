"""G-COV: which code templates of the generator does the schema set reach?

E4 / E5 judge generated headers, so their reach is the set of generator
templates the schemas make sbeppc emit.  This module measures that reach
statically: every `fmt::format` call of the generator whose literal is a *code*
template (it is not a diagnostic) is split at its replacement fields into
literal segments; a template counts as exercised when every segment that is
long enough to be distinctive occurs - whitespace-normalised, in order - in one
generated file of the schema set.  Nothing is executed besides the generator
build step every other rule uses; the result is a coverage figure and a list,
never a verdict about /repo: it says what the corpus-scoped rules did NOT see.

Templates made only of glue (`{}_{}`, `struct {}{{}};`) cannot be told apart in
the output and are counted as `indistinct`.  The figure is written into the
evidence of every check that has corpus-scoped (E4 / E5) rules.
"""
import os
import re

from common import *
import gen
import schemas

MINLEN = 10        # non-blank characters that make a literal segment distinctive
WS = re.compile(r"\s+")


def norm(s):
    return WS.sub(" ", s).strip()


def segments(tpl):
    txt = gen.render_literal_text(tpl)
    segs = [norm(x) for x in re.split("\x00\\d+\x00", txt)]
    return [s for s in segs if len(s.replace(" ", "")) >= MINLEN]


def code_templates(f=None):
    """(FormatCall, segments) for every fmt::format literal that emits code"""
    out = []
    for fc in gen.format_calls(f):
        if fc.kind != "format" or not fc.literal or fc.template is None:
            continue
        segs = segments(fc.template)
        out.append((fc, segs))
    return out


def generated_texts(names=None):
    root, results = schemas.generate_all()
    texts = []
    for s in schemas.all_schemas():
        if names is not None and s.name not in names:
            continue
        if results[s.name]["rc"] != 0:
            continue
        d = os.path.join(root, s.schema_name)
        for dp, _, fns in os.walk(d):
            for fn in fns:
                if fn.endswith(".hpp"):
                    p = os.path.join(dp, fn)
                    texts.append((s.name, os.path.relpath(p, root), norm(open(p, errors="replace").read())))
    return texts


def in_order(segs, text):
    pos = 0
    for s in segs:
        i = text.find(s, pos)
        if i < 0:
            return False
        pos = i + len(s)
    return True


def measure(names=None):
    tpls = code_templates()
    texts = generated_texts(names)
    rows = []
    for fc, segs in tpls:
        key = "%s|%s" % (gen.short(fc.fn), norm(fc.template)[:60])
        if not segs:
            rows.append({"key": key, "where": fc.where, "state": "indistinct", "by": []})
            continue
        by = sorted({sn for sn, _, t in texts if in_order(segs, t)})
        rows.append({"key": key, "where": fc.where, "state": "exercised" if by else "unreached", "by": by})
    return rows


def summary(rows):
    n = len(rows)
    ex = [r for r in rows if r["state"] == "exercised"]
    un = [r for r in rows if r["state"] == "unreached"]
    ind = [r for r in rows if r["state"] == "indistinct"]
    only_corpus = [r for r in ex if all(b.startswith("v") for b in r["by"])]
    return {"code_templates": n, "exercised": len(ex), "unreached": len(un), "indistinct": len(ind),
            "exercised_only_by_corpus": len(only_corpus),
            "unreached_list": [{"where": r["where"], "template": r["key"]} for r in un]}


def attach(chk, names=None):
    """coverage figure for the evidence file (no verdict)"""
    try:
        chk.extra["generator_coverage"] = summary(measure(names))
    except Exception as e:      # the figure is informational; never let it decide anything
        chk.extra["generator_coverage"] = {"error": str(e)[:200]}


if __name__ == "__main__":
    import json
    import sys
    rows = measure()
    s = summary(rows)
    print(json.dumps(s, indent=1))
    if "-v" in sys.argv:
        for r in rows:
            print(r["state"], r["where"], r["key"], ",".join(r["by"])[:80])

"""Validator layout recurrence (C01 clause 3, shared with C08)."""
from common import *
import gguard


def check_validator_recurrence(chk):
    gguard.check(chk, only_prefixes=("sbe_schema_validator::validate_field_offset", "sbe_schema_validator::validate_element_offset",
                                     "sbe_schema_validator::validate_block_length", "utils::get_valid_offset"))
    chk.floor("G-EFFECT layout functions", chk.rule_counts.get("G-EFFECT", 0), 3)

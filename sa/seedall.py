#!/usr/bin/env python3
"""Regression of the checks against every archived seeded change: for each /verif/seeded/<id>/ apply patch.diff to
/repo, run the quick check of its property, undo (git checkout), and write /verif/seeded/RESULTS.json + RESULTS.md
(seed, property, exit status, rules that fired).  Usage: sa/seedall.py [seed-id ...]"""
import json
import os
import re
import subprocess
import sys

VERIF = os.path.dirname(os.path.dirname(os.path.abspath(__file__)))
SEEDED = os.path.join(VERIF, "seeded")


def run_parallel(only, jobs):
    """development variant: every seed gets its own scratch worktree of /repo HEAD under /tmp (removed afterwards) and
    the check runs with SBEPP_REPO pointing there; /repo itself is not touched.  The registered way (apply to /repo,
    run, undo) is the sequential mode."""
    import shutil
    import tempfile
    from concurrent.futures import ThreadPoolExecutor

    def one(sid):
        d = os.path.join(SEEDED, sid)
        meta = json.load(open(os.path.join(d, "meta.json")))
        prop = meta["property"]
        wt = tempfile.mkdtemp(prefix="seedwt_", dir="/tmp")
        os.rmdir(wt)
        try:
            subprocess.check_call(["git", "-C", "/repo", "worktree", "add", "--detach", wt, "HEAD"], stdout=subprocess.DEVNULL, stderr=subprocess.DEVNULL)
            r = subprocess.run(["git", "-C", wt, "apply", os.path.join(d, "patch.diff")], capture_output=True, text=True)
            if r.returncode != 0:
                return {"seed": sid, "property": prop, "exit": None, "rules": [], "note": "patch no longer applies: " + r.stderr[:120]}
            env = dict(os.environ, SBEPP_REPO=wt)
            r = subprocess.run([sys.executable, os.path.join(VERIF, "sa", "run.py"), prop, "--tier", "quick"], capture_output=True, text=True, cwd=VERIF, env=env)
            rules = sorted(set(m.group(1) for m in re.finditer(r"^\S+: ([A-Za-z0-9_.\-]+): \[", r.stdout, re.M)))
            nviol = sum(1 for l in r.stdout.splitlines() if l.startswith("VIOLATION"))
            print("%-48s %s exit=%s violations=%d rules=%s" % (sid, prop, r.returncode, nviol, rules), flush=True)
            return {"seed": sid, "property": prop, "exit": r.returncode, "violations": nviol, "rules": rules}
        finally:
            subprocess.call(["git", "-C", "/repo", "worktree", "remove", "--force", wt], stdout=subprocess.DEVNULL, stderr=subprocess.DEVNULL)
            shutil.rmtree(wt, ignore_errors=True)
    sids = [s for s in sorted(os.listdir(SEEDED)) if os.path.isdir(os.path.join(SEEDED, s)) and (not only or s in only)]
    with ThreadPoolExecutor(jobs) as ex:
        rows = list(ex.map(one, sids))
    subprocess.call(["git", "-C", VERIF, "checkout", "--", "evidence"])
    return rows


def write_results(rows):
    json.dump(rows, open(os.path.join(SEEDED, "RESULTS.json"), "w"), indent=1)
    with open(os.path.join(SEEDED, "RESULTS.md"), "w") as f:
        f.write("| seed | property | quick check exit | rules that fired |\n|---|---|---|---|\n")
        for r_ in rows:
            f.write("| %s | %s | %s | %s |\n" % (r_["seed"], r_["property"], r_["exit"], ", ".join(r_["rules"]) or r_.get("note", "-")))


def main():
    only = sys.argv[1:]
    if only and only[0] == "--parallel":
        jobs = int(only[1])
        only = only[2:]
        rows = run_parallel(only, jobs)
        if not only:
            write_results(rows)
        missed = [r_["seed"] for r_ in rows if r_["exit"] != 1]
        print("missed:", missed)
        return 1 if missed else 0
    rows = []
    st = subprocess.run(["git", "-C", "/repo", "status", "--porcelain", "--untracked-files=no"], capture_output=True, text=True).stdout.strip()
    if st:
        print("/repo has local modifications, refusing:", st[:200])
        return 3
    for sid in sorted(os.listdir(SEEDED)):
        d = os.path.join(SEEDED, sid)
        if not os.path.isdir(d) or (only and sid not in only):
            continue
        meta = json.load(open(os.path.join(d, "meta.json")))
        prop = meta["property"]
        patch = os.path.join(d, "patch.diff")
        r = subprocess.run(["git", "-C", "/repo", "apply", "--check", patch], capture_output=True, text=True)
        if r.returncode != 0:
            rows.append({"seed": sid, "property": prop, "exit": None, "rules": [], "note": "patch no longer applies: " + r.stderr[:120]})
            continue
        subprocess.check_call(["git", "-C", "/repo", "apply", patch])
        try:
            r = subprocess.run([sys.executable, os.path.join(VERIF, "sa", "run.py"), prop, "--tier", "quick"], capture_output=True, text=True, cwd=VERIF)
        finally:
            subprocess.check_call(["git", "-C", "/repo", "checkout", "--", "."])
        rules = sorted(set(m.group(1) for m in re.finditer(r"^\S+: ([A-Za-z0-9_.\-]+): \[", r.stdout, re.M)))
        nviol = sum(1 for l in r.stdout.splitlines() if l.startswith("VIOLATION"))
        rows.append({"seed": sid, "property": prop, "exit": r.returncode, "violations": nviol, "rules": rules})
        print("%-40s %s exit=%s violations=%d rules=%s" % (sid, prop, r.returncode, nviol, rules), flush=True)
    subprocess.call(["git", "-C", VERIF, "checkout", "--", "evidence"])
    if not only:
        json.dump(rows, open(os.path.join(SEEDED, "RESULTS.json"), "w"), indent=1)
        with open(os.path.join(SEEDED, "RESULTS.md"), "w") as f:
            f.write("| seed | property | quick check exit | rules that fired |\n|---|---|---|---|\n")
            for r_ in rows:
                f.write("| %s | %s | %s | %s |\n" % (r_["seed"], r_["property"], r_["exit"], ", ".join(r_["rules"]) or r_.get("note", "-")))
    missed = [r_["seed"] for r_ in rows if r_["exit"] != 1]
    print("missed:", missed)
    return 1 if missed else 0


if __name__ == "__main__":
    sys.exit(main())

#!/usr/bin/env python3
"""Regression of the checks against every archived seeded change: for each /verif/seeded/<id>/ apply patch.diff to
/repo, run the quick check of its property, undo (git checkout), and write /verif/seeded/RESULTS.json + RESULTS.md
(seed, property, exit status, rules that fired).  Usage: sa/seedall.py [seed-id ...]"""
import json
import os
import re
import subprocess
import sys

VERIF = os.path.dirname(os.path.dirname(os.path.abspath(__file__)))
SEEDED = os.path.join(VERIF, "seeded")


def main():
    only = sys.argv[1:]
    rows = []
    st = subprocess.run(["git", "-C", "/repo", "status", "--porcelain", "--untracked-files=no"], capture_output=True, text=True).stdout.strip()
    if st:
        print("/repo has local modifications, refusing:", st[:200])
        return 3
    for sid in sorted(os.listdir(SEEDED)):
        d = os.path.join(SEEDED, sid)
        if not os.path.isdir(d) or (only and sid not in only):
            continue
        meta = json.load(open(os.path.join(d, "meta.json")))
        prop = meta["property"]
        patch = os.path.join(d, "patch.diff")
        r = subprocess.run(["git", "-C", "/repo", "apply", "--check", patch], capture_output=True, text=True)
        if r.returncode != 0:
            rows.append({"seed": sid, "property": prop, "exit": None, "rules": [], "note": "patch no longer applies: " + r.stderr[:120]})
            continue
        subprocess.check_call(["git", "-C", "/repo", "apply", patch])
        try:
            r = subprocess.run([sys.executable, os.path.join(VERIF, "sa", "run.py"), prop, "--tier", "quick"], capture_output=True, text=True, cwd=VERIF)
        finally:
            subprocess.check_call(["git", "-C", "/repo", "checkout", "--", "."])
        rules = sorted(set(m.group(1) for m in re.finditer(r"^\S+: ([A-Za-z0-9_.\-]+): \[", r.stdout, re.M)))
        nviol = sum(1 for l in r.stdout.splitlines() if l.startswith("VIOLATION"))
        rows.append({"seed": sid, "property": prop, "exit": r.returncode, "violations": nviol, "rules": rules})
        print("%-40s %s exit=%s violations=%d rules=%s" % (sid, prop, r.returncode, nviol, rules), flush=True)
    subprocess.call(["git", "-C", VERIF, "checkout", "--", "evidence"])
    if not only:
        json.dump(rows, open(os.path.join(SEEDED, "RESULTS.json"), "w"), indent=1)
        with open(os.path.join(SEEDED, "RESULTS.md"), "w") as f:
            f.write("| seed | property | quick check exit | rules that fired |\n|---|---|---|---|\n")
            for r_ in rows:
                f.write("| %s | %s | %s | %s |\n" % (r_["seed"], r_["property"], r_["exit"], ", ".join(r_["rules"]) or r_.get("note", "-")))
    missed = [r_["seed"] for r_ in rows if r_["exit"] != 1]
    print("missed:", missed)
    return 1 if missed else 0


if __name__ == "__main__":
    sys.exit(main())

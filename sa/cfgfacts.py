"""Configuration facts: truth table of SBEPP_SIZE_CHECKS_ENABLED / SBEPP_ASSERT
over the documented configuration macros, evaluated with the preprocessor on
/repo's sbepp.hpp (clang -E -dM; no code is run)."""
from common import *

# documented in sbepp.hpp: DISABLE wins; handler macros enable checks unless
# NDEBUG (ASSERT_HANDLER) or always (ENABLE_ASSERTS_WITH_HANDLER); default = assert()/NDEBUG
CASES = []
for disable in (0, 1):
    for handler in (0, 1):
        for enable in (0, 1):
            for ndebug in (0, 1):
                if disable:
                    exp = 0
                elif handler or enable:
                    exp = 1 if (not ndebug or enable) else 0
                else:
                    exp = 0 if ndebug else 1
                CASES.append((disable, handler, enable, ndebug, exp))


def check_assert_config(chk):
    for disable, handler, enable, ndebug, exp in CASES:
        flags = []
        if disable:
            flags.append("-DSBEPP_DISABLE_ASSERTS")
        if handler:
            flags.append("-DSBEPP_ASSERT_HANDLER")
        if enable:
            flags.append("-DSBEPP_ENABLE_ASSERTS_WITH_HANDLER")
        if ndebug:
            flags.append("-DNDEBUG")
        r = run(["clang++", "-std=c++17", "-E", "-dM", "-x", "c++", "-I" + os.path.join(REPO, "sbepp/src"),
                 SBEPP_HPP] + flags)
        if r.returncode != 0:
            raise AnalysisBroken("preprocessing sbepp.hpp failed: " + r.stderr[-300:])
        val = None
        assert_def = None
        for line in r.stdout.splitlines():
            if line.startswith("#define SBEPP_SIZE_CHECKS_ENABLED "):
                val = int(line.split()[-1])
            if line.startswith("#define SBEPP_ASSERT("):
                assert_def = line
            if line.startswith("#define SBEPP_SIZE_CHECK("):
                sc = line
        key = "cfg:%d%d%d%d" % (disable, handler, enable, ndebug)
        wh = "sbepp/src/sbepp/sbepp.hpp:248"
        body = assert_def.split(")", 1)[1].strip() if assert_def else ""
        active = assert_def is not None and body != "((void)0)"
        if body == "assert(expr)":      # <cassert>: a no-op exactly when NDEBUG is defined
            active = not ndebug
        if val != exp:
            chk.violation("CFG.checks", key, wh,
                          "SBEPP_SIZE_CHECKS_ENABLED=%s with %s, documented value %d" % (val, " ".join(flags) or "(no macros)", exp))
        elif bool(exp) != active:
            chk.violation("CFG.checks", key, wh,
                          "SBEPP_ASSERT is %s with %s but size checks are %s" % ("active" if active else "a no-op", " ".join(flags) or "(no macros)", "on" if exp else "off"))
        elif "SBEPP_ASSERT" not in sc or "<=" not in sc:
            chk.violation("CFG.checks", key, wh, "SBEPP_SIZE_CHECK no longer expands to an SBEPP_ASSERT of a <= bound: %s" % sc)
        else:
            chk.ok("CFG.checks", key, {"flags": flags, "SBEPP_SIZE_CHECKS_ENABLED": val})

"""R-INT: integer soundness of size / pointer-offset / shift computations by
type ranges (interval arithmetic over the C++ conversion rules).

For every expression that is a *sink* in a function defined in sbepp.hpp or in
generated code -
   S1  the integer operand of pointer + - += -= and of pointer subscripts,
   S2  the returned expression of a function returning std::size_t,
   S3  the arguments of SBEPP_SIZE_CHECK,
   S4  shifts (bitset masks): left operand width and count range,
   S5  an argument converted implicitly to a parameter that the callee uses in
       S1 (iterator difference_type parameters)
- every arithmetic node below it (through parentheses, casts, `auto`/const
locals initialised in the same function) is evaluated on *type ranges*: each
leaf has the full range of its declared type (these are header values read
from the wire: any value can occur), constants are points.  A node is unsound
when the mathematical result range does not fit the type the computation is
carried out in, unless that type is 64 bits wide (the properties' own
carve-out: results that fit size_t), or when a possibly-negative value is
implicitly converted to an unsigned type narrower than a pointer, or an
unsigned value is implicitly converted to a same-width/narrower signed type
it does not fit, on such a path.  A flagged node has a concrete witness value,
which the report prints.
"""
from common import *

INT = {'bool': (1, 0), 'char': (8, 1), 'signed char': (8, 1), 'unsigned char': (8, 0),
       'short': (16, 1), 'unsigned short': (16, 0), 'int': (32, 1), 'unsigned int': (32, 0),
       'long': (64, 1), 'unsigned long': (64, 0), 'long long': (64, 1),
       'unsigned long long': (64, 0), 'wchar_t': (32, 1), 'char16_t': (16, 0), 'char32_t': (32, 0)}


def clean(t):
    t = (t or "").replace("const ", "").replace("volatile ", "").strip()
    if t.endswith("&"):
        t = t[:-1].strip()
    return t


def int_info(t, enums=None):
    t = clean(t)
    if t in INT:
        return INT[t]
    if enums and t in enums:
        return int_info(enums[t], None)
    return None


def trange(t, enums=None):
    ii = int_info(t, enums)
    if ii is None:
        return None
    w, s = ii
    if w == 1:
        return (0, 1)
    return (-(1 << (w - 1)), (1 << (w - 1)) - 1) if s else (0, (1 << w) - 1)


def is_ptr(t):
    return clean(t).endswith("*")


class RInt:
    def __init__(self, chk, facts, label, prop_rules=("S1", "S2", "S3", "S4", "S5")):
        self.chk = chk
        self.facts = facts
        self.label = label
        self.rules = prop_rules
        self.enums = {e["qn"]: e["underlying"] for e in facts.get("enums", [])}
        self.reported = set()
        self.n_sinks = 0
        self.n_nodes = 0
        self.fn_by_key = {}
        for f in facts["functions"]:
            if f.get("key"):
                self.fn_by_key[f["key"]] = f

    # ----------------------------------------------------------- ranges
    def range_of(self, n, fn, locals_, sink, depth=0):
        """mathematical range of expression n (None = not an integer)."""
        if n is None:
            return None
        k = n.get("k")
        t = n.get("t")
        tr = trange(t, self.enums)
        if "cv" in n:
            try:
                v = int(n["cv"])
                return (v, v)
            except ValueError:
                return tr
        if k in ("ImplicitCastExpr", "CStyleCastExpr", "CXXStaticCastExpr", "CXXFunctionalCastExpr",
                 "CXXReinterpretCastExpr", "CXXConstCastExpr"):
            ck = n.get("ck")
            sub = n.get("sub")
            if ck in ("LValueToRValue", "NoOp"):
                return self.range_of(sub, fn, locals_, sink, depth)
            if ck in ("IntegralCast", "IntegralToBoolean", "BooleanToSignedIntegral"):
                r = self.range_of(sub, fn, locals_, sink, depth)
                if r is None or tr is None:
                    return tr
                if r[0] >= tr[0] and r[1] <= tr[1]:
                    return r
                # does not fit: value changes
                if n.get("implicit"):
                    self.conversion(n, fn, r, tr, sink)
                return tr
            return tr
        if k == "DeclRefExpr":
            did = n.get("did")
            if did in locals_ and depth < 6:
                vd = locals_[did]
                if vd.get("init") is not None and (vd.get("const") or vd.get("constexpr")):
                    r = self.range_of(vd["init"], fn, locals_, sink, depth + 1)
                    if r is not None and tr is not None:
                        return (max(r[0], tr[0]), min(r[1], tr[1])) if r[0] <= tr[1] and r[1] >= tr[0] else tr
            return tr
        if k == "UnaryOperator":
            op = n.get("op")
            r = self.range_of(n.get("sub"), fn, locals_, sink, depth)
            if r is None:
                return tr
            if op == "-":
                res = (-r[1], -r[0])
                return self.fit(n, fn, res, tr, sink, "unary -")
            if op == "+":
                return r
            return tr
        if k in ("BinaryOperator", "CompoundAssignOperator"):
            op = n.get("op", "")
            bop = op[:-1] if k == "CompoundAssignOperator" else op
            a = self.range_of(n.get("lhs"), fn, locals_, sink, depth)
            b = self.range_of(n.get("rhs"), fn, locals_, sink, depth)
            ct = n.get("comp_res_t") if k == "CompoundAssignOperator" else t
            ctr = trange(ct, self.enums)
            if a is None or b is None or ctr is None:
                return tr
            if k == "CompoundAssignOperator":
                # lhs is converted to the computation type first
                clt = trange(n.get("comp_lhs_t"), self.enums)
                if clt and (a[0] < clt[0] or a[1] > clt[1]):
                    a = clt
            if bop == "+":
                res = (a[0] + b[0], a[1] + b[1])
            elif bop == "-":
                res = (a[0] - b[1], a[1] - b[0])
            elif bop == "*":
                c = [a[0] * b[0], a[0] * b[1], a[1] * b[0], a[1] * b[1]]
                res = (min(c), max(c))
            else:
                return tr
            self.n_nodes += 1
            return self.fit(n, fn, res, ctr, sink, "`%s` %s" % (bop, self.opnd_types(n)), ct)
        if k == "ConditionalOperator":
            a = self.range_of(n.get("then"), fn, locals_, sink, depth)
            b = self.range_of(n.get("else"), fn, locals_, sink, depth)
            if a and b:
                return (min(a[0], b[0]), max(a[1], b[1]))
            return tr
        return tr

    def src_type(self, n):
        """declared type of an operand before integral promotion."""
        while n is not None and n.get("k") == "ImplicitCastExpr" and n.get("ck") in (
                "IntegralCast", "LValueToRValue", "NoOp"):
            n = n.get("sub")
        return clean(n.get("t")) if n is not None else "?"

    def opnd_types(self, n):
        return "(%s, %s)" % (self.src_type(n.get("lhs")), self.src_type(n.get("rhs")))

    def fit(self, n, fn, res, ctr, sink, what, ct=None):
        ct = ct or n.get("t")
        ii = int_info(ct, self.enums)
        if res[0] >= ctr[0] and res[1] <= ctr[1]:
            return res
        if ii and ii[0] >= 64:
            return ctr          # carve-out: computed in 64 bits
        witness = res[1] if res[1] > ctr[1] else res[0]
        signed = ii and ii[1]
        self.report(n, fn, sink, "overflow",
                    "%s computed in '%s' (%d bit %s): result range [%d, %d] exceeds the type, e.g. %d %s"
                    % (what, clean(ct), ii[0] if ii else 0, "signed: undefined behaviour" if signed else "unsigned: wraps",
                       res[0], res[1], witness, "" ),
                    "%s" % what.split(" ")[0].replace("`", ""))
        return ctr

    def conversion(self, n, fn, r, tr, sink):
        fi = int_info(n.get("from"), self.enums)
        ti = int_info(n.get("t"), self.enums)
        if not fi or not ti:
            return
        if ti[0] >= 64 and not ti[1] and fi[0] >= 64:
            return              # ptrdiff_t -> size_t: modular arithmetic at pointer width
        if ti[0] >= 64 and ti[1] and fi[0] >= 64:
            return              # size_t -> ptrdiff_t: carve-out (sizes fit)
        if not ti[1] and r[0] < 0:
            if ti[0] >= 64:
                return          # sign-extended to pointer width: modular arithmetic stays right
            self.report(n, fn, sink, "signconv",
                        "possibly negative '%s' (range [%d, %d]) implicitly converted to '%s', narrower than a "
                        "pointer: e.g. -1 becomes %d" % (clean(n.get("from")), r[0], r[1], clean(n.get("t")), (1 << ti[0]) - 1),
                        "conv")
        elif ti[1] and r[1] > tr[1]:
            self.report(n, fn, sink, "narrowconv",
                        "'%s' value up to %d implicitly converted to '%s' (max %d): e.g. %d becomes %d"
                        % (clean(n.get("from")), r[1], clean(n.get("t")), tr[1], tr[1] + 1, tr[1] + 1 - (1 << ti[0])),
                        "conv")
        elif not ti[1] and r[1] > tr[1]:
            self.report(n, fn, sink, "truncconv",
                        "'%s' value up to %d implicitly truncated to '%s' (max %d)"
                        % (clean(n.get("from")), r[1], clean(n.get("t")), tr[1]),
                        "conv")

    def report(self, n, fn, sink, kind, text, ikey):
        key = "%s|%s|%s|%s" % (fn_name(fn), sink, ikey, kind)
        if key in self.reported:
            return
        self.reported.add(key)
        where = "%s:%s" % (rel(fn["file"]), n.get("l"))
        self.chk.violation("R-INT." + sink.split(":")[0], key, where,
                           "%s in %s [%s]: %s" % (sink, fn["qn"], self.label, text))

    # ------------------------------------------------------------ sinks
    def check_sink(self, n, fn, locals_, sink):
        self.n_sinks += 1
        before = len(self.reported)
        self.range_of(n, fn, locals_, sink)
        if len(self.reported) == before:
            self.chk.ok("R-INT." + sink.split(":")[0], "%s|%s|%s" % (fn_name(fn), sink, n.get("l")),
                        {"function": fn["qn"], "line": n.get("l"), "sink": sink, "type": n.get("t")},
                        nontrivial=has_arith(n))

    def run_function(self, fn):
        body = fn.get("body")
        if body is None:
            return
        locals_ = {}
        for n in walk(body):
            if n.get("k") == "VarDecl" and "did" in n:
                locals_[n["did"]] = n
        rett = clean(fn.get("ret"))
        for n in walk(body):
            k = n.get("k")
            if k in ("BinaryOperator", "CompoundAssignOperator"):
                op = n.get("op")
                lhs, rhs = n.get("lhs"), n.get("rhs")
                if op in ("+", "-", "+=", "-=") and lhs and rhs:
                    lp, rp = is_ptr(lhs.get("t")), is_ptr(rhs.get("t"))
                    if lp and not rp and "S1" in self.rules:
                        self.check_sink(rhs, fn, locals_, "S1:pointer%s" % op)
                    elif rp and not lp and op == "+" and "S1" in self.rules:
                        self.check_sink(lhs, fn, locals_, "S1:pointer%s" % op)
                if op in ("<<", "<<=", ">>") and "S4" in self.rules:
                    self.check_shift(n, fn, locals_)
                if op in ("<", "<=", ">", ">=", "==", "!=") and "S6" in self.rules and fn["name"].startswith("operator") \
                        and not (n.get("mac") or []):
                    # operands of the comparison a relational operator returns: arithmetic on them must not wrap
                    # (index differences of 32/64-bit numInGroup types are not promoted to int)
                    if lhs is not None and has_arith(lhs):
                        self.check_sink(lhs, fn, locals_, "S6:compared value")
                    if rhs is not None and has_arith(rhs):
                        self.check_sink(rhs, fn, locals_, "S6:compared value")
            elif k == "ArraySubscriptExpr" and "S1" in self.rules:
                if is_ptr((n.get("base") or {}).get("t")):
                    self.check_sink(n.get("idx"), fn, locals_, "S1:subscript")
            elif k == "ReturnStmt" and rett == "unsigned long" and n.get("sub") and "S2" in self.rules:
                self.check_sink(n["sub"], fn, locals_, "S2:return size_t")
            elif k in ("CallExpr", "CXXMemberCallExpr", "CXXOperatorCallExpr") and "S5" in self.rules:
                self.check_call_args(n, fn, locals_)
        if "S3" in self.rules:
            for n in walk(body):
                if "SBEPP_SIZE_CHECK" in (n.get("mac") or []) and n.get("k") == "BinaryOperator" and n.get("op") == "<=":
                    self.check_sink(n.get("lhs"), fn, locals_, "S3:size check")

    def check_shift(self, n, fn, locals_):
        # only shifts in bitset_base are property relevant (C15); generic here
        lhs, rhs = n.get("lhs"), n.get("rhs")
        lt = int_info(n.get("t") if n["k"] == "BinaryOperator" else n.get("comp_res_t"), self.enums)
        cnt = self.range_of(rhs, fn, locals_, "S4:shift")
        self.n_sinks += 1
        cls_t = None
        # width the result must have: the class's T for bitset_base<T>
        if fn.get("cls_tpl") == "sbepp::detail::bitset_base" and fn.get("cls_targs"):
            cls_t = int_info(fn["cls_targs"][0], self.enums)
        key = "%s|S4|%s|%s" % (fn_name(fn), n.get("op"), self.opnd_types(n))
        bad = False
        if cls_t and lt and n.get("op") == "<<":
            if lt[0] < cls_t[0]:
                bad = True
                self.report(n, fn, "S4:shift", "narrowshift",
                            "`%s` %s is evaluated in %d-bit '%s' but the set is %d bits wide: choices >= %d are "
                            "wrong or undefined (e.g. index %d)" % (n.get("op"), self.opnd_types(n), lt[0], clean(n.get("t")),
                                                                    cls_t[0], lt[0] - (1 if lt[1] else 0), cls_t[0] - 1),
                            "shift")
            elif lt[1] and lt[0] == cls_t[0] and lt[0] < 64:
                bad = True
                self.report(n, fn, "S4:shift", "signedshift",
                            "`%s` %s is evaluated in signed '%s': shifting into the sign bit (index %d) is undefined "
                            "before C++20" % (n.get("op"), self.opnd_types(n), clean(n.get("t")), lt[0] - 1),
                            "shift")
            elif lt[1] and lt[0] > cls_t[0]:
                pass    # promoted to a wider signed int: all indexes < width of T are fine
        if not bad:
            self.chk.ok("R-INT.S4", key, {"function": fn["qn"], "line": n.get("l"), "computed_in": n.get("t"),
                                          "operands": self.opnd_types(n), "count_range": cnt})

    def check_call_args(self, n, fn, locals_):
        c = n.get("callee")
        if not c or not c.get("key"):
            return
        cal = self.fn_by_key.get(c["key"])
        if cal is None or not cal["file"].endswith("sbepp.hpp"):
            return
        pflow = self.params_to_pointer(cal)
        if not pflow:
            return
        for i, a in enumerate(n.get("args") or []):
            if i in pflow:
                self.check_sink(a, fn, locals_, "S5:arg->%s#%d" % (cal["name"], i))

    _ptr_flow_memo = {}

    def params_to_pointer(self, cal, depth=0):
        """indexes of integer parameters of `cal` that reach pointer arithmetic
        (directly, or by being forwarded to such a parameter)."""
        key = cal.get("key")
        memo = self._ptr_flow_memo.setdefault(id(self.facts), {})
        if key in memo:
            return memo[key]
        memo[key] = set()
        res = set()
        body = cal.get("body")
        if body is None or depth > 4:
            return res
        pid = {p["did"]: i for i, p in enumerate(cal.get("params", [])) if int_info(p.get("t"), self.enums)}
        if not pid:
            return res

        def mentions(e):
            out = set()
            for x in walk(e):
                if x.get("k") == "DeclRefExpr" and x.get("did") in pid:
                    out.add(pid[x["did"]])
            return out
        for x in walk(body):
            k = x.get("k")
            if k in ("BinaryOperator", "CompoundAssignOperator") and x.get("op") in ("+", "-", "+=", "-="):
                l, r = x.get("lhs"), x.get("rhs")
                if l and r and is_ptr(l.get("t")) and not is_ptr(r.get("t")):
                    res |= mentions(r)
            elif k in ("CallExpr", "CXXMemberCallExpr", "CXXOperatorCallExpr"):
                c2 = x.get("callee")
                if c2 and c2.get("key") in self.fn_by_key and c2["key"] != key:
                    sub = self.params_to_pointer(self.fn_by_key[c2["key"]], depth + 1)
                    for j, a in enumerate(x.get("args") or []):
                        if j in sub:
                            res |= mentions(a)
        memo[key] = res
        return res

    def run(self, select):
        for fn in self.facts["functions"]:
            if fn.get("dependent") or not fn.get("body"):
                continue
            if select(fn):
                self.run_function(fn)


def has_arith(n):
    for x in walk(n):
        if x.get("k") in ("BinaryOperator", "CompoundAssignOperator") and x.get("op") in ("+", "-", "*", "+=", "-=", "*="):
            return True
        if x.get("k") == "ImplicitCastExpr" and x.get("ck") == "IntegralCast":
            return True
    return False


def fn_name(fn):
    """instance name stable across line changes and instantiations: the
    template's qualified name (types of the failing instantiation are reported
    in the text as the witness)."""
    tag = ""
    ps = fn.get("params") or []
    if fn.get("name") == "operator()" and ps and ps[0].get("t", "").endswith("_tag"):
        tag = "(" + ps[0]["t"].split("::")[-1] + ")"
    if fn.get("cls_tpl"):
        return fn["cls_tpl"] + "::" + fn["name"] + tag
    return (fn.get("base") or fn["qn"]) + tag


def dims_of(fn):
    """for flat/nested_group_base<Byte, Entry, Dimension>: the generated
    dimension composite name identifies the (numInGroup, blockLength) pair."""
    ta = fn.get("cls_targs") or []
    out = []
    for a in ta[1:]:
        a = a.replace("const ", "")
        out.append(a.split("::")[-1].split("<")[0] if "::" in a else a)
    return ",".join(out)

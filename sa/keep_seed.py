#!/usr/bin/env python3
"""Confirm a sub-agent mutation in its scratch worktree and archive it under /verif/seeded/<id>/.
usage: keep_seed.py <worktree> <seed id> <property> "<needs>" """
import json, os, shutil, subprocess, sys, time
wt, sid, prop, needs = sys.argv[1:5]
mut = os.path.join(wt, "MUTATION")
log = []
def sh(cmd, **kw):
    r = subprocess.run(cmd, shell=True, capture_output=True, text=True, **kw)
    log.append({"cmd": cmd, "rc": r.returncode, "tail": (r.stdout + r.stderr)[-400:]})
    return r
# 1. patch applies to a clean checkout of /repo HEAD
r = sh("git -C /repo apply --check %s/patch.diff" % mut)
applies = r.returncode == 0
# 2. the worktree (change applied) builds and its suite passes
r = sh("git -C %s diff --stat | tail -1" % wt)
r = sh("cmake --build %s/_build -j12 2>&1 | tail -1 && ctest --test-dir %s/_build -j12 --timeout 900 2>&1 | tail -3" % (wt, wt))
suite_ok = "100% tests passed" in r.stdout
# 3. demo fails with the change, passes on the clean tree (/repo, which has a build)
r1 = sh("bash %s/demo.sh %s" % (mut, wt), cwd=mut)
r2 = sh("bash %s/demo.sh /repo" % mut, cwd=mut)
print("applies", applies, "suite_ok", suite_ok, "demo changed rc", r1.returncode, "demo clean rc", r2.returncode)
ok = applies and suite_ok and r1.returncode != 0 and r2.returncode == 0
if ok:
    d = os.path.join("/verif/seeded", sid)
    shutil.rmtree(d, ignore_errors=True)
    os.makedirs(d)
    for f in os.listdir(mut):
        p = os.path.join(mut, f)
        if os.path.isfile(p) and os.path.getsize(p) < 400000:
            shutil.copy(p, d)
    json.dump({"id": sid, "property": prop, "needs_to_manifest": needs,
               "confirmed": {"patch_applies_to_repo_head": applies, "suite_with_change": "100% tests passed (ctest in scratch worktree)",
                             "demo_with_change_rc": r1.returncode, "demo_clean_rc": r2.returncode},
               "ran": [l["cmd"] for l in log], "origin": "independent sub-agent given only the property text"},
              open(os.path.join(d, "meta.json"), "w"), indent=1)
    print("archived", d)
else:
    for l in log: print(l)
sys.exit(0 if ok else 1)

"""Helpers over E2 summaries: event views, the R-CHK coverage test, reference
evaluation of view geometry, function selection."""
import re

from common import *
import rint
import symeng
from symex import *

VIEW_SYMS = (".begin", ".ptr", ".end")


def conjuncts(c):
    """flatten an assert condition into atomic comparison terms"""
    out = []
    c = lin(c)
    if c.is_const():
        return out
    if len(c.terms) == 1 and c.k == 0 and c.terms[0][1] == 1:
        a = c.terms[0][0]
        if a[0] == "and":
            return conjuncts(a[1]) + conjuncts(a[2])
        if a[0] == "cmp":
            return [(a[1], a[2])]
    return [("?", c)]


class Summary:
    def __init__(self, fn, paths):
        self.fn = fn
        self.paths = [p for p in paths]

    @property
    def live(self):
        return LiveList([p for p in self.paths if not p.aborted], self.fn)


class NoLivePath(Exception):
    """every path of the function ends in the assertion handler (or was cut): it cannot complete normally"""
    def __init__(self, fn):
        Exception.__init__(self, fn.get("qn", "?"))
        self.fn = fn


class LiveList(list):
    def __init__(self, items, fn):
        list.__init__(self, items)
        self.fn = fn

    def __getitem__(self, i):
        if isinstance(i, int) and not len(self):
            raise NoLivePath(self.fn)
        return list.__getitem__(self, i)


def facts_before(path, idx):
    """inequality facts established on the path before event idx: asserted
    conditions (a failing assert calls the handler) and branch assumptions."""
    cache = getattr(path, "_facts", None)
    if cache is None:
        cache = []
        acc = []
        for e in path.events:
            cache.append(len(acc))
            if e[0] == "assert":
                acc += conjuncts(e[1])
            elif e[0] == "assume":
                c = e[1] if e[2] else negate_cond(e[1])
                acc += conjuncts(c)
        path._facts = cache
        path._facts_all = acc
    fs = path._facts_all[:cache[idx]] if idx < len(cache) else path._facts_all
    af = list(getattr(path, "_arg_facts", []))
    return fs + strict_facts(fs) + cast_identities(fs, af) + af


UMAX = {"unsigned char": 255, "unsigned short": 65535, "unsigned int": 4294967295, "unsigned long": 18446744073709551615}


def lin_nonneg(l):
    l = lin(l)
    return l.k >= 0 and all(c > 0 and atom_nonneg(a) for a, c in l.terms)


def range_extent(l):
    """end(r) - begin(r) of one range object: not negative for a valid range"""
    l = lin(l)
    if l.k != 0 or len(l.terms) != 2:
        return False
    (a, ca), (b, cb) = l.terms
    if ca + cb != 0 or abs(ca) != 1:
        return False
    pos, neg = (a, b) if ca == 1 else (b, a)
    return (pos[0] == "call" and neg[0] == "call" and str(pos[1]).endswith("end") and str(neg[1]).endswith("begin")
            and pos[2:] == neg[2:])


def cast_identities(fs, extra=()):
    """a conversion to an unsigned type keeps the value when an asserted fact bounds the operand by the type's
    maximum and the operand cannot be negative: cast(T, x) == x  (x <= max(T) asserted, x >= 0)"""
    casts = set()
    for op, f in fs:
        for a, _ in f.terms:
            if a[0] == "cast" and a[1] in UMAX and isinstance(a[2], Lin):
                casts.add(a)
    out = []
    for a in casts:
        inner, mx = a[2], UMAX[a[1]]
        if not (lin_nonneg(inner) or range_extent(inner) or nonpos(-inner, list(fs) + list(extra), depth=1)):
            continue
        for op, f in fs:
            if op not in ("<=", "<"):
                continue
            d = f - inner                      # f = inner - K  =>  d = -K
            if d.is_const() and (-d.k if op == "<=" else -d.k - 1) <= mx:
                out.append(("==", Lin.atom(a) - inner))
                break
    return out


def strict_facts(fs):
    """f <= 0 together with f != 0 gives f < 0 (integers)"""
    ne = set()
    for op, f in fs:
        if op == "!=":
            ne.add(f)
            ne.add(-f)
    out = []
    for op, f in fs:
        if op == "<=" and f in ne:
            out.append(("<", f))
        if op == "!=" and f.k == 0 and len(f.terms) == 1 and abs(f.terms[0][1]) == 1 and atom_nonneg(f.terms[0][0]):
            # x != 0 for a quantity that cannot be negative: x >= 1
            out.append(("<=", Lin.const(1) - Lin.atom(f.terms[0][0])))
    return out


def atom_nonneg(a):
    """atoms that cannot be negative: lengths and counts read from unsigned
    wire fields (assumption: dimension/length encodings are unsigned, which
    SBE requires), strlen, casts to unsigned types, products of those"""
    if a[0] in ("wire", "strlen", "distance", "memchr_len"):
        return True
    if a[0] == "cast":
        return a[1].startswith("unsigned") or a[1] in ("bool",)
    if a[0] == "mul":
        return all(atom_nonneg(x) for x in a[1])
    if a[0] == "sym":
        n = a[1]
        return n in ("count", "pos", "size", "n_unsigned") or n.startswith("length")
    return False


def _step(d, op, f):
    if op == "<=":
        return d - f
    if op == "<":
        return d - (f + 1)
    return None


_NN = {}


def _nn(a):
    v = _NN.get(a)
    if v is None:
        v = _NN[a] = atom_nonneg(a)
    return v


def _diff(terms, k, f, sign, addk):
    """(terms, k) - sign * f - addk as (dict, const) without building a normalised Lin"""
    r = dict(terms)
    for a, c in f.terms:
        v = r.get(a, 0) - sign * c
        if v:
            r[a] = v
        else:
            r.pop(a, None)
    return r, k - sign * f.k - addk


def _good(r, k):
    if k > 0:
        return False
    for a, c in r.items():
        if c >= 0 or not _nn(a):
            return False
    return True


def _steps(op):
    """(sign, addk) variants of subtracting a fact: `f <= 0`: d - f; `f < 0`: d - (f + 1); `f == 0`: d - f and d + f"""
    if op == "<=":
        return ((1, 0),)
    if op == "<":
        return ((1, 1),)
    return ((1, 0), (-1, 0))


def nonpos(d, facts, depth=2):
    """is linear form d <= 0 implied by at most two asserted inequalities
    (plain linear combination, no solver)?"""
    d = lin(d)
    if d.is_const():
        return d.k <= 0
    if d.k <= 0 and all(c < 0 and _nn(a) for a, c in d.terms):
        return True
    datoms = set(a for a, _ in d.terms)
    cand = [(op, f) for op, f in facts if op in ("<", "<=", "==") and any(a in datoms for a, _ in f.terms)]
    dterms, dk, nd = d.terms, d.k, len(d.terms)
    # one-step implications are tried against every fact; the two-step search below stays bounded
    if len(cand) > 24:
        for op, f in cand[:-24]:
            for sign, addk in _steps(op):
                r, k = _diff(dterms, dk, f, sign, addk)
                if _good(r, k):
                    return True
    cand = cand[-24:]
    rest = []
    for op, f in cand:
        for sign, addk in _steps(op):
            r, k = _diff(dterms, dk, f, sign, addk)
            if not r:
                if k <= 0:
                    return True
                continue
            if _good(r, k):
                return True
            if len(r) <= nd:
                rest.append((r, k, f))
    if depth > 1:
        for r, k, used in rest[:12]:
            rt = tuple(r.items())
            for op, f in facts[-40:]:
                if f is used or op not in ("<", "<="):
                    continue
                hit = False
                for a, _ in f.terms:
                    if a in r:
                        hit = True
                        break
                if not hit:
                    continue
                r2, k2 = _diff(rt, k, f, 1, 1 if op == "<" else 0)
                if _good(r2, k2):
                    return True
    return False

def has_view_sym(l):
    for a in lin(l).atoms():
        if a[0] == "sym" and (a[1].endswith(".begin") or a[1].endswith(".ptr") or ".ptr@" in a[1] or ".begin@" in a[1] or ".ptr." in a[1]):
            return True
        if a[0] == "mul":
            continue
    return False


def end_syms(l):
    return [a for a, c in lin(l).terms if a[0] == "sym" and (a[1].endswith(".end") or ".end@" in a[1] or ".end_ptr" in a[1]) and c == -1]


def access_covered(path, idx, post=False):
    """R-CHK: event idx (read/write at addr,len) is covered iff an earlier
    asserted/assumed `U - E <= 0` (E an end-pointer symbol) exists with
    addr+len - U <= 0 implied by the path's facts."""
    e = path.events[idx]
    addr, ln = lin(e[1]), lin(e[2])
    top = addr + ln
    facts = facts_before(path, len(path.events) if post else idx)
    if ln.is_const() and ln.k == 0:
        return True, "empty access"
    for op, f in facts:
        if op not in ("<=", "<"):
            continue
        es = end_syms(f)
        if not es:
            continue
        E = Lin.atom(es[0])
        U = f + E          # f = U - E
        if op == "<":
            U = U + 1
        d = top - U
        if nonpos(d, facts):
            return True, "by %s <= %s" % (show(U), show(E))
    return False, "no dominating check bounds %s (facts: %s)" % (show(top), "; ".join("%s%s0" % (show(f), op) for op, f in facts[:8]))


ITER_PARAMS = ("pos",)       # iterator parameters of the array mutators: positions inside the view (asserted begin <= pos <= end)


def iter_param_based(l):
    return any(a[0] == "sym" and a[1] in ITER_PARAMS for a in lin(l).atoms())


def buffer_accesses(path):
    for i, e in enumerate(path.events):
        if e[0] in ("read", "write") and isinstance(e[1], Lin):
            if has_view_sym(e[1]) or has_view_sym(lin(e[1]) + lin(e[2])) or iter_param_based(e[1]):
                yield i, e


def writes(path):
    return [e for e in path.events if e[0] == "write"]


def reads(path):
    return [e for e in path.events if e[0] == "read"]


def asserts(path):
    return [e for e in path.events if e[0] == "assert"]


def size_checks(path):
    return [e for e in path.events if e[0] == "assert" and "SBEPP_SIZE_CHECK" in (e[3] if len(e) > 3 else ())]


class Lib:
    """engine + selection over one facts file"""

    def __init__(self, facts, label):
        self.facts = facts
        self.label = label
        self.eng = symeng.Engine(facts)
        self._sum = {}
        self.by_name = {}
        for f in self.eng.fns.values():
            self.by_name.setdefault(((f.get("cls_tpl") or ""), f["name"]), []).append(f)

    def names(self):
        """public name anchors emitted by the harness: alias -> canonical type"""
        if not hasattr(self, "_names"):
            self._names = {}
            for r in self.facts["records"]:
                if r["name"] == "names" and r["qn"].startswith("vh_"):
                    for a in r["aliases"]:
                        self._names[a["name"]] = a["t"]
        return self._names

    def fns(self, cls_tpl, name):
        return self.by_name.get((cls_tpl, name), [])

    def summary(self, fn, max_paths=400, **kw):
        k = fn["key"]
        if k not in self._sum or kw:
            s = Summary(fn, self.eng.summarise(fn, max_paths=max_paths, **kw))
            if kw:
                return s
            self._sum[k] = s
        return self._sum[k]

    def method(self, cls, name, first_param_suffix=None, nparams=None):
        """find a method (searching bases) of an instantiated class"""
        seen = set()
        work = [rint.clean(cls)]
        while work:
            c = work.pop(0)
            if c in seen:
                continue
            seen.add(c)
            for f in self.eng.fns.values():
                if f.get("cls") == c and f["name"] == name:
                    ps = f.get("params") or []
                    if first_param_suffix is not None and not (ps and ps[0]["t"].endswith(first_param_suffix)):
                        continue
                    if nparams is not None and len(ps) != nparams:
                        continue
                    return f
            r = self.eng.record(c)
            if r:
                work += r["bases"]
        return None

    def tag_call(self, view_cls, tag, this_name="view"):
        """value of  view(detail::<tag>{})  for a symbolic view of class view_cls"""
        f = self.method(view_cls, "operator()", "::" + tag, 1)
        if f is None:
            raise AnalysisBroken("no operator()(%s) found for %s" % (tag, view_cls))
        paths = self.eng.summarise(f, this_name=this_name, this_obj=Obj(rint.clean(view_cls), this_name, symbolic=True))
        live = [p for p in paths if not p.aborted]
        if len(live) != 1:
            raise AnalysisBroken("%s(%s): %d paths" % (view_cls, tag, len(live)))
        return live[0].ret, live[0]


def short_fn(fn):
    return rint.fn_name(fn)


def where(fn, line=None):
    return "%s:%s" % (rel(fn["file"]), line or fn["line"])

"""Set (bitset_base) mask rows and generated choice accessors (C15)."""
from common import *
import rint
import schemas
from symex import *
from libsum import *


def strip_types(x):
    """drop the computation-type tag of ('bin', op, a, b, type) atoms and
    same-value cast wrappers"""
    if isinstance(x, Lin):
        out = Lin.const(x.k)
        for a, c in x.terms:
            if a[0] == "cast":
                out = out + strip_types(a[2]).scale(c)
            else:
                out = out + Lin.atom(strip_types(a)).scale(c)
        return out
    if isinstance(x, tuple):
        if x and x[0] == "bin":
            return ("bin", x[1], strip_types(x[2]), strip_types(x[3]))
        if x and x[0] == "bitnot":
            return ("bitnot", strip_types(x[1]))
        return tuple(strip_types(y) if isinstance(y, (Lin, tuple)) else y for y in x)
    return x


def BIN(op, a, b):
    a, b = lin(a), lin(b)
    if a.is_const() and b.is_const():
        x, y = a.k, b.k
        return Lin.const({"<<": x << y, "&": x & y, "|": x | y}[op])
    return Lin.atom(("bin", op, a, b))


def NOT(a):
    a = lin(a)
    if a.is_const():
        return Lin.const(~a.k)
    return Lin.atom(("bitnot", a))


def mask(n):
    return BIN("<<", 1, n)


def expect_get(bits, n):
    return cmp_term("!=", BIN("&", bits, mask(n)), 0)


def expect_set(bits, n, b):
    return BIN("|", BIN("&", bits, NOT(mask(n))), BIN("<<", b, n))


def norm(v):
    return strip_types(lin(v))


def check(chk, lib, root):
    bits = sym("this.bits")
    n = sym("n")
    for f in lib.fns("sbepp::detail::bitset_base", "operator()"):
        ps = f.get("params") or []
        t0 = ps[0]["t"] if ps else ""
        T = (f.get("cls_targs") or ["?"])[0]
        s = lib.summary(f)
        p = s.live[0]
        key = "%s<%s>" % ("get_bit" if t0.endswith("get_bit_tag") else "set_bit", T)
        if t0.endswith("::get_bit_tag"):
            got = norm(p.ret)
            want = norm(expect_get(bits, n))
            if got != want:
                chk.violation("SET", "bitset_base.get_bit", where(f),
                              "get_bit on %s returns %s, expected bits & (1 << n) != 0 = %s" % (T, show(got), show(want)))
            else:
                chk.ok("SET", key, {"function": f["qn"], "returns": show(got)})
        elif t0.endswith("::set_bit_tag"):
            got = norm(p.post["this"].get("bits"))
            want = norm(expect_set(bits, n, sym("b")))
            if got != want:
                chk.violation("SET", "bitset_base.set_bit", where(f),
                              "set_bit on %s stores %s, expected (bits & ~(1 << n)) | (b << n) = %s" % (T, show(got), show(want)))
            else:
                chk.ok("SET", key, {"function": f["qn"], "stores": show(got)})
    for op in ("==", "!="):
        for f in lib.by_name.get(("", "operator" + op), []):
            ps = f.get("params") or []
            if ps and "bitset_base" in ps[0]["t"]:
                p = lib.summary(f).live[0]
                want = cmp_term(op, sym("lhs.bits"), sym("rhs.bits"))
                if p.ret is None or lin(p.ret) != want:
                    chk.violation("SET", "bitset_base.operator" + op, where(f), "set comparison is %s, expected %s" % (show(p.ret), show(want)))
                else:
                    chk.ok("SET", "cmp%s %s" % (op, ps[0]["t"][-30:]), {"function": f["qn"][:120]})
    # generated choice accessors against the XML model
    name = lib.label.split()[0]
    ss = {s.name: s for s in schemas.all_schemas()}
    if name not in ss:
        return
    model = ss[name].model
    sets = []

    def collect(enc, path):
        import sbe_model as M
        if isinstance(enc, M.Set):
            sets.append((enc, path))
        elif isinstance(enc, M.Composite):
            for el in enc.elements:
                if isinstance(el, (M.Set, M.Composite)):
                    collect(el, path + [el.name])
    for enc in model.type_order:
        collect(enc, [enc.name])
    ns = model.name

    def cls_of(path):
        cls = lib.names().get("ty__" + path[0])
        if cls is None:
            return None
        if cls.endswith("<char>"):
            cls = cls[:-len("<char>")]
        for el in path[1:]:
            found = None
            for suffix in ("<char>", ""):
                for f in lib.eng.fns.values():
                    if f.get("cls") == cls + suffix and f["name"] == el and not f.get("params"):
                        found = rint.clean(f["ret"])
                        break
                if found:
                    break
            if not found:
                return None
            cls = found[:-len("<char>")] if found.endswith("<char>") else found
        return cls
    for st, path in sets:
        cls = cls_of(path)
        if cls is None:
            chk.broke("set %s: class not resolvable from accessors" % "::".join(path))
            continue
        # sbepp::visit(set): one visitor.on_set_choice(this-><choice>(), <choice tag>{}) per choice, in schema order - the value
        # is the named getter's (tied to the XML index by the rows below) or a direct read of the choice's constant index
        # through get_bit_tag (computed in the set's width); anything else (a hand-written mask) is not accepted
        vv = [f for f in lib.facts["functions"] if (f.get("qn") or "").startswith(cls + "::operator()") and f.get("body") is not None
              and (f.get("params") or [{}])[0].get("t", "").endswith("::visit_tag") and len(f.get("params") or []) == 2]
        if vv:
            got = []
            for x in walk(vv[0]["body"]):
                cal = x.get("callee") or {}
                nm_ = cal.get("name") or x.get("member") or x.get("name")
                a = x.get("args") or []
                if nm_ != "on_set_choice" and not (x.get("k") == "CallExpr" and any((y.get("member") or y.get("name")) == "on_set_choice" for y in walk(x.get("fnexpr") or {}))):
                    continue
                if len(a) < 2:
                    continue
                first = a[-2]
                while first.get("k") in ("ImplicitCastExpr", "ParenExpr") and first.get("sub") is not None:
                    first = first["sub"]
                getter = (first.get("callee") or {}).get("name") if first.get("k") == "CXXMemberCallExpr" and not (first.get("args") or []) else None
                if getter is None and any("get_bit_tag" in (z.get("t") or "") for z in walk(first)):
                    idxs = [int(z["cv"]) for z in walk(first) if z.get("k") == "IntegerLiteral" and str(z.get("cv", "")).isdigit()]
                    byidx = {c_.index: c_.name for c_ in st.choices}
                    if len(idxs) == 1 and idxs[0] in byidx:
                        getter = byidx[idxs[0]]
                tagt = (a[-1].get("t") or "").split("::")[-1]
                got.append((getter, tagt))
            want = [(c_.name, c_.name) for c_ in st.choices]
            vkey = "visit:" + "::".join(path)
            if got != want:
                chk.violation("SET", vkey, where(vv[0]),
                              "sbepp::visit of set %s reports %s, expected each choice's own getter with the choice's tag, in schema "
                              "(declaration) order: %s" % ("::".join(path), got[:6], want[:6]))
            else:
                chk.ok("SET", vkey, {"choices": len(want)})
        # the deprecated visit_set entry point: one visitor(this-><choice>(), "<choice>") call per choice, in schema order -
        # the value reported for a choice is the named getter's (which the rows below tie to the XML index)
        vs = [f for f in lib.facts["functions"] if (f.get("qn") or "").startswith(cls + "::operator()") and f.get("body") is not None
              and (f.get("params") or [{}])[0].get("t", "").endswith("visit_set_tag") and len(f.get("params") or []) == 2]
        if vs:
            got = []
            for x in walk(vs[0]["body"]):
                a = x.get("args") or []
                if x.get("k") in ("CallExpr", "CXXOperatorCallExpr") and len(a) >= 2:
                    lit = [z.get("str") for z in walk(a[-1]) if "str" in z]
                    if not lit:
                        continue
                    first = a[-2]
                    getter = (first.get("callee") or {}).get("name") if first.get("k") == "CXXMemberCallExpr" and not (first.get("args") or []) else None
                    if getter is None and any("get_bit_tag" in (z.get("t") or "") for z in walk(first)):
                        # a direct read of a constant bit index is the same value as the getter of the choice with that index
                        idxs = [int(z["cv"]) for z in walk(first) if z.get("k") == "IntegerLiteral" and str(z.get("cv", "")).isdigit()]
                        byidx = {c_.index: c_.name for c_ in st.choices}
                        if len(idxs) == 1 and idxs[0] in byidx:
                            getter = byidx[idxs[0]]
                    got.append((getter, lit[0]))
            want = [(c_.name, c_.name) for c_ in st.choices]
            vkey = "visit_set:" + "::".join(path)
            if got != want:
                chk.violation("SET", vkey, where(vs[0]),
                              "visit_set of %s reports %s, expected the named getter of each choice with its name, in schema order: %s"
                              % ("::".join(path), got[:6], want[:6]))
            else:
                chk.ok("SET", vkey, {"choices": len(want)})
        for ch in st.choices:
            cands = [f for f in lib.eng.fns.values() if f.get("cls") == cls and f["name"] == ch.name]
            getters = [f for f in cands if not f.get("params")]
            setters = [f for f in cands if len(f.get("params") or []) == 1]
            key = "%s.%s" % ("::".join(path), ch.name)
            if not getters or not setters:
                chk.broke("set %s: accessors of choice %s not found in facts" % ("::".join(path), ch.name))
                continue
            ok_one = False
            for g in getters:
                p = lib.summary(g).live[0]
                got = norm(p.ret)
                want = norm(expect_get(bits, Lin.const(ch.index)))
                if got == want:
                    ok_one = True
            if not ok_one:
                chk.violation("SET", "choice-getter:" + key, where(getters[0]),
                              "choice %s (index %d in %s): getter returns %s, expected bit %d"
                              % (key, ch.index, rel(model.path), show(norm(lib.summary(getters[0]).live[0].ret)), ch.index))
            else:
                chk.ok("SET", "choice-getter:" + key, {"index": ch.index})
            ok_one = False
            for g in setters:
                p = lib.summary(g).live[0]
                got = norm(p.post["this"].get("bits"))
                want = norm(expect_set(bits, Lin.const(ch.index), sym(g["params"][0]["name"])))
                if got == want:
                    ok_one = True
            if not ok_one:
                chk.violation("SET", "choice-setter:" + key, where(setters[0]),
                              "choice %s (index %d): setter stores %s" % (key, ch.index, show(norm(lib.summary(setters[0]).live[0].post["this"].get("bits")))))
            else:
                chk.ok("SET", "choice-setter:" + key, {"index": ch.index})

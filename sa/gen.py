"""E3 helpers over the facts of the sbeppc translation unit: function index,
format/throw/warning call extraction with resolved callees, template
placeholder parsing, structural dominance (enclosing branches and preceding
early exits - the sbeppc sources are goto-free, which is checked)."""
import re

from common import *

_idx = {}


def facts():
    return sbeppc_facts()


def sbeppc_functions(f=None):
    f = f or facts()
    return [fn for fn in f["functions"] if "/sbeppc/src/" in fn["file"] and fn.get("body") is not None
            and not fn.get("dependent")]


def by_name(f=None):
    f = f or facts()
    k = id(f)
    if k not in _idx:
        d = {}
        for fn in sbeppc_functions(f):
            d.setdefault(fn["name"], []).append(fn)
            d.setdefault(short(fn), []).append(fn)
        _idx[k] = d
    return _idx[k]


def short(fn):
    """class::name without namespaces / template arguments"""
    q = fn.get("base") or fn["qn"]
    q = re.sub(r"<[^<>]*>", "", q)
    parts = q.split("::")
    return "::".join(parts[-2:]) if len(parts) >= 2 else q


def first_string(n):
    for x in walk(n):
        if "str" in x:
            return x["str"]
    return None


def strip(n):
    """skip implicit conversions / materialisations around an expression"""
    while n is not None:
        k = n.get("k")
        if k in ("ImplicitCastExpr", "CXXFunctionalCastExpr", "CXXStaticCastExpr") and n.get("sub") is not None:
            n = n["sub"]
            continue
        if k == "CXXConstructExpr" and len(n.get("args") or []) == 1 and (n.get("callee") or {}).get("copymove"):
            n = n["args"][0]
            continue
        break
    return n


class FormatCall:
    def __init__(self, fn, node, kind):
        self.fn, self.node, self.kind = fn, node, kind
        args = node.get("args") or []
        self.template = first_string(args[0]) if args else None
        self.named = {}
        self.positional = []
        self.literal = self.template is not None
        for a in args[1:]:
            b = strip(a)
            c = (b or {}).get("callee") or {}
            if b is not None and c.get("base") == "fmt::arg":
                nm = first_string(b["args"][0])
                self.named[nm] = b["args"][1]
            else:
                self.positional.append(a)
        self.line = node.get("l")

    @property
    def where(self):
        return "%s:%s" % (rel(self.fn["file"]), self.line)


def format_calls(f=None):
    f = f or facts()
    out = []
    for fn in sbeppc_functions(f):
        for n in walk(fn["body"]):
            c = n.get("callee")
            if not c:
                continue
            b = c.get("base", "")
            if b == "fmt::format":
                out.append(FormatCall(fn, n, "format"))
            elif b == "sbepp::sbeppc::throw_error":
                out.append(FormatCall(fn, n, "throw_error"))
            elif c.get("name") == "warning" and "reporter" in (c.get("cls") or ""):
                out.append(FormatCall(fn, n, "warning"))
            elif b == "fmt::print":
                out.append(FormatCall(fn, n, "print"))
    return out


FIELD_RE = re.compile(r"\{\{|\}\}|\{([^{}]*)\}")


def placeholders(tpl):
    """replacement fields of a fmt template: list of (name-or-index-or-'', start, end)"""
    out = []
    for m in FIELD_RE.finditer(tpl):
        if m.group(0) in ("{{", "}}"):
            continue
        spec = m.group(1)
        name = spec.split(":")[0]
        out.append((name, m.start(), m.end()))
    return out


def render_literal_text(tpl):
    """template text with escaped braces resolved and fields replaced by \\x00N\\x00 markers"""
    out = []
    i = 0
    idx = 0
    for m in FIELD_RE.finditer(tpl):
        out.append(tpl[i:m.start()])
        if m.group(0) == "{{":
            out.append("{")
        elif m.group(0) == "}}":
            out.append("}")
        else:
            out.append("\x00%d\x00" % idx)
            idx += 1
        i = m.end()
    out.append(tpl[i:])
    return "".join(out)


# ------------------------------------------------------ structural dominance
def parents(fn):
    """map id(node) -> (parent, role) for the body of fn"""
    out = {}

    def rec(n):
        for k, v in n.items():
            if isinstance(v, dict) and "k" in v:
                out[id(v)] = (n, k)
                rec(v)
            elif isinstance(v, list):
                for i, x in enumerate(v):
                    if isinstance(x, dict) and "k" in x:
                        out[id(x)] = (n, (k, i))
                        rec(x)
    rec(fn["body"])
    return out


def always_exits(n):
    """does statement n never fall through? (return / throw / throw_error /
    continue / break; compound ending with one; if with both arms exiting)"""
    if n is None:
        return False
    k = n.get("k")
    if k in ("ReturnStmt", "CXXThrowExpr", "ContinueStmt", "BreakStmt"):
        return True
    if k == "CompoundStmt":
        c = n.get("c") or []
        return bool(c) and always_exits(c[-1])
    if k == "IfStmt":
        return always_exits(n.get("then")) and n.get("else") is not None and always_exits(n.get("else"))
    if k in ("CallExpr",):
        c = n.get("callee") or {}
        return c.get("base") in ("sbepp::sbeppc::throw_error",) or c.get("name") in ("abort", "exit", "terminate")
    if k in ("ExprWithCleanups",):
        return always_exits(n.get("sub"))
    return False


def dominating_conditions(fn, node, par=None):
    """conditions that hold when `node` executes: list of (cond_node, polarity)
    from enclosing if-arms, conditional operators and preceding siblings of
    the form `if(c) <always exits>` (=> !c)."""
    par = par or parents(fn)
    out = []
    cur = node
    while id(cur) in par:
        p, role = par[id(cur)]
        k = p.get("k")
        if k == "IfStmt":
            if role == "then":
                out.append((p["cond"], True))
            elif role == "else":
                out.append((p["cond"], False))
        elif k == "ConditionalOperator":
            if role == "then":
                out.append((p["cond"], True))
            elif role == "else":
                out.append((p["cond"], False))
        elif k == "BinaryOperator" and p.get("op") in ("&&", "||") and role == "rhs":
            out.append((p["lhs"], p["op"] == "&&"))
        elif k == "CompoundStmt" and isinstance(role, tuple):
            idx = role[1]
            for s in (p.get("c") or [])[:idx]:
                # if(c) exit;  [else if(c2) exit; ...]  => !c [&& !c2 ...]
                while s is not None and s.get("k") == "IfStmt":
                    if always_exits(s.get("then")):
                        out.append((s["cond"], False))
                        s = s.get("else")
                        continue
                    if s.get("else") is not None and always_exits(s.get("else")):
                        out.append((s["cond"], True))
                    break
        cur = p
    return out


def has_goto(f=None):
    f = f or facts()
    for fn in sbeppc_functions(f):
        for n in walk(fn["body"]):
            if n.get("k") in ("GotoStmt", "IndirectGotoStmt", "LabelStmt"):
                return "%s:%s" % (rel(fn["file"]), n.get("l"))
    return None


# ------------------------------------------------------------ expression text
SHOW_TARGS = False      # the guard / effect / return tables (gguard) spell template arguments of sbeppc's own templates

_locals_cache = {}


def locals_of(fn):
    k = id(fn)
    if k not in _locals_cache:
        d = {}
        for x in walk(fn["body"]):
            if x.get("k") == "VarDecl" and "did" in x:
                d[x["did"]] = x
        _locals_cache[k] = d
    return _locals_cache[k]


def expr_text(n, depth=0, fn=None):
    """canonical text of an expression: resolved names, no source positions;
    const / reference locals are replaced by their initialisers (so renaming or
    introducing a temporary does not change the text)"""
    if n is None:
        return "?"
    if depth > 14:
        return "..."
    k = n.get("k")
    if fn is not None and k == "DeclRefExpr" and n.get("dk") == "Var" and not n.get("global"):
        vd = locals_of(fn).get(n.get("did"))
        if vd is not None and vd.get("init") is not None and (vd.get("const") or vd.get("ref") or vd.get("constexpr")):
            return expr_text(vd["init"], depth + 1, fn)
    if "cv" in n and k not in ("CXXConstructExpr",):
        if n.get("qn") and k == "DeclRefExpr":
            return n["qn"].split("::")[-1]
        return str(n["cv"])
    if "str" in n:
        return '"%s"' % n["str"]
    if k in ("ImplicitCastExpr", "CXXStaticCastExpr", "CXXFunctionalCastExpr", "CStyleCastExpr"):
        return expr_text(n.get("sub"), depth, fn)
    if k == "DeclRefExpr":
        return n.get("name", "?")
    if k == "MemberExpr":
        b = n.get("base")
        bt = expr_text(b, depth + 1, fn) if b is not None else "this"
        return "%s.%s" % (bt, n.get("name"))
    if k == "CXXThisExpr":
        return "this"
    if k == "UnaryOperator":
        op = n.get("op")
        s = expr_text(n.get("sub"), depth + 1, fn)
        if op == "*":
            return "*" + s
        return "%s%s" % (op, s) if not n.get("postfix") else "%s%s" % (s, op)
    if k == "BinaryOperator":
        return "(%s %s %s)" % (expr_text(n.get("lhs"), depth + 1, fn), n.get("op"), expr_text(n.get("rhs"), depth + 1, fn))
    if k == "ArraySubscriptExpr":
        return "%s[%s]" % (expr_text(n.get("base"), depth + 1, fn), expr_text(n.get("idx"), depth + 1, fn))
    if k == "UserDefinedLiteral":
        a = (n.get("args") or [None])[0]
        return expr_text(a, depth + 1, fn) + "sv" if a is not None else "udl"
    if k == "CXXDependentScopeMemberExpr":
        b = n.get("base")
        return "%s.%s" % (expr_text(b, depth + 1, fn), n.get("name", "?")) if b is not None else n.get("name", "?")
    if k in ("UnresolvedLookupExpr", "UnresolvedMemberExpr"):
        return n.get("name", "?")
    if k in ("CallExpr", "CXXMemberCallExpr", "CXXOperatorCallExpr"):
        c = n.get("callee") or {}
        nm = c.get("name") or ((n.get("fnexpr") or {}).get("name")) or "?"
        if SHOW_TARGS and c.get("targs") and "/sbeppc/" in (c.get("file") or "") and k != "CXXOperatorCallExpr":
            # explicit/deduced template arguments of sbeppc's own function templates are part of what is called
            # (can_be_parsed_as<std::int8_t> vs <std::uint8_t>)
            nm += "<%s>" % ",".join(str(a).replace("sbepp::sbeppc::", "") for a in c["targs"])
        args = [expr_text(a, depth + 1, fn) for a in n.get("args") or []]
        o = n.get("obj")
        if k == "CXXOperatorCallExpr":
            op = n.get("op")
            if o is not None and op in ("*", "->") and not args:
                return "*" + expr_text(o, depth + 1, fn)
            if o is not None and op == "bool":
                return expr_text(o, depth + 1, fn)
            allargs = ([expr_text(o, depth + 1, fn)] if o is not None else []) + args
            if len(allargs) == 2 and op not in ("()", "[]"):
                return "(%s %s %s)" % (allargs[0], op, allargs[1])
            if op == "[]" and len(allargs) == 2:
                return "%s[%s]" % (allargs[0], allargs[1])
            return "op%s(%s)" % (op, ", ".join(allargs))
        if o is not None:
            return "%s.%s(%s)" % (expr_text(o, depth + 1, fn), nm, ", ".join(args))
        return "%s(%s)" % (nm, ", ".join(args))
    if k == "CXXConstructExpr":
        args = n.get("args") or []
        if len(args) == 1:
            return expr_text(args[0], depth, fn)
        return "%s{%s}" % ((n.get("t") or "").split("::")[-1][:20], ", ".join(expr_text(a, depth + 1, fn) for a in args))
    if k == "ConditionalOperator":
        return "(%s ? %s : %s)" % (expr_text(n.get("cond"), depth + 1, fn), expr_text(n.get("then"), depth + 1, fn), expr_text(n.get("else"), depth + 1, fn))
    if k == "LambdaExpr":
        return "<lambda>"
    if k == "InitListExpr":
        return "{%s}" % ", ".join(expr_text(a, depth + 1, fn) for a in n.get("inits") or [])
    if k == "CXXBoolLiteralExpr":
        return "true" if n.get("cv") == "1" else "false"
    return k or "?"


def member_reads(n):
    """all MemberExpr field names read in an expression"""
    out = []
    for x in walk(n):
        if x.get("k") == "MemberExpr" and x.get("dk") == "Field":
            out.append(x.get("name"))
    return out

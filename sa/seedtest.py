#!/usr/bin/env python3
"""Apply a patch to /repo, run the quick checks of the given properties, undo
the patch.  Usage: sa/seedtest.py <patch.diff> C01 C04 ...   (or `all`)"""
import json
import os
import subprocess
import sys

VERIF = os.path.dirname(os.path.dirname(os.path.abspath(__file__)))


def main():
    patch = os.path.abspath(sys.argv[1])
    props = sys.argv[2:]
    if props == ["all"]:
        props = [c["property_id"] for c in json.load(open(os.path.join(VERIF, "MANIFEST.json")))["checks"]]
    r = subprocess.run(["git", "-C", "/repo", "apply", "--check", patch], capture_output=True, text=True)
    if r.returncode != 0:
        print("patch does not apply:", r.stderr[:300])
        return 3
    subprocess.check_call(["git", "-C", "/repo", "apply", patch])
    out = {}
    try:
        for p in props:
            r = subprocess.run([sys.executable, os.path.join(VERIF, "sa", "run.py"), p, "--tier", "quick"], capture_output=True, text=True, cwd=VERIF)
            viol = [l for l in r.stdout.splitlines() if l.startswith("VIOLATION")]
            heads = [l for l in r.stdout.splitlines() if ": [" in l and not l.startswith("KNOWN")][:4]
            broken = [l for l in r.stdout.splitlines() if l.startswith("ANALYSIS-BROKEN")][:3]
            out[p] = (r.returncode, len(viol))
            print("%s exit=%d violations=%d" % (p, r.returncode, len(viol)))
            for h in heads:
                print("    ", h[:330])
            for b in broken:
                print("    ", b[:330])
    finally:
        subprocess.check_call(["git", "-C", "/repo", "checkout", "--", "."])
        # evidence files were rewritten against the patched tree: restore the committed ones
        subprocess.call(["git", "-C", VERIF, "checkout", "--", "evidence"])
    return 0


if __name__ == "__main__":
    sys.exit(main())

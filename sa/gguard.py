"""G-GUARD: error discipline of sbeppc.  Every throw_error site is keyed by
its diagnostic text (the 190 sbeppc_errors tests match on that text, so it is
a stable semantic key); its guard - the conjunction of branch conditions that
structurally dominate it, with const locals inlined, comparisons oriented and
negations pushed - must equal the hand-confirmed row of
rules/validator_guards.json.  The same table holds the layout effects of the
three offset/blockLength functions (assignments with their guards).

  python3 sa/gguard.py --regen   rewrites the table from the current tree
                                 (for review; never run by a check)
"""
import json
import re
import sys

from common import *
import gen

TABLE = os.path.join(VERIF, "rules", "validator_guards.json")
NEG = {"<": ">=", ">=": "<", ">": "<=", "<=": ">", "==": "!=", "!=": "=="}
FLIP = {"<": ">", ">": "<", "<=": ">=", ">=": "<=", "==": "==", "!=": "!="}


def norm_cond(n, pol, fn):
    """list of conjunct strings (or one disjunction string) for cond node n with polarity pol"""
    n = strip_bool(n)
    k = n.get("k")
    if k == "UnaryOperator" and n.get("op") == "!":
        return norm_cond(n["sub"], not pol, fn)
    if k == "CXXOperatorCallExpr" and n.get("op") == "!":
        return norm_cond(n.get("obj") or (n.get("args") or [None])[0], not pol, fn)
    if k == "BinaryOperator" and n.get("op") in ("&&", "||"):
        a = norm_cond(n["lhs"], pol, fn)
        b = norm_cond(n["rhs"], pol, fn)
        conj = (n["op"] == "&&") == pol
        if conj:
            return a + b
        return ["(" + " || ".join(sorted(" && ".join(sorted(x)) for x in (a, b))) + ")"]
    if k in ("BinaryOperator", "CXXOperatorCallExpr") and n.get("op") in NEG:
        if k == "BinaryOperator":
            l, r = n["lhs"], n["rhs"]
        else:
            xs = ([n["obj"]] if n.get("obj") is not None else []) + (n.get("args") or [])
            l, r = xs[0], xs[1]
        op = n["op"] if pol else NEG[n["op"]]
        lt, rt = gen.expr_text(l, 0, fn), gen.expr_text(r, 0, fn)
        lt, rt = opt_norm(lt), opt_norm(rt)
        if op in (">", ">="):
            lt, rt, op = rt, lt, FLIP[op]
        if op in ("==", "!=") and lt > rt:
            lt, rt = rt, lt
        return ["%s %s %s" % (lt, op, rt)]
    t = opt_norm(gen.expr_text(n, 0, fn))
    return [t if pol else "!" + t]


def strip_bool(n):
    """remove implicit / explicit conversions to bool and `operator bool` calls"""
    while n is not None:
        k = n.get("k")
        if k in ("ImplicitCastExpr", "CXXStaticCastExpr", "CXXFunctionalCastExpr", "ExprWithCleanups") and n.get("sub") is not None:
            n = n["sub"]
            continue
        if k == "CXXMemberCallExpr" and (n.get("callee") or {}).get("name", "").startswith("operator bool"):
            n = n["obj"]
            continue
        if k == "CXXMemberCallExpr" and (n.get("callee") or {}).get("name") == "has_value" and False:
            n = n["obj"]
            continue
        break
    return n


def opt_norm(t):
    """unify optional idioms and string-view conversions in expression text"""
    t = re.sub(r"\.operator basic_string_view\(\)", "", t)
    t = re.sub(r"\.operator bool\(\)", "", t)
    t = re.sub(r"\.operator long\(\)", "", t)
    t = re.sub(r"\.has_value\(\)", "", t)
    t = re.sub(r"\bthis\.", "", t)
    return t


def guard_of(fn, node, par=None):
    conds = gen.dominating_conditions(fn, node, par)
    out = []
    for c, pol in conds:
        out += norm_cond(c, pol, fn)
    # a condition and its negation cannot both dominate; duplicates collapse
    return sorted(set(out))


def site_key(fc):
    t = (fc.template or "<non-literal>").replace("\n", " ")
    return "%s | %s" % (gen.short(fc.fn).split("::")[-1] if False else short_fn(fc.fn), t)


def short_fn(fn):
    s = gen.short(fn)
    s = re.sub(r"basic_string>", "unique_set", s)
    # overload sets (validate_encoding(t|e|s|r|c)) are told apart by parameter names
    if s in OVERLOADED:
        s += "(" + ",".join(p["name"] for p in fn.get("params") or []) + ")"
    return s


OVERLOADED = {"sbe_schema_validator::validate_encoding", "sbe_schema_validator::is_constant_composite_element"}


MUTATORS = {"insert", "emplace", "try_emplace", "emplace_back", "push_back", "erase", "clear", "create"}
EFFECT_CLASSES = ("sbe_schema_validator::", "sbe_schema_cpp_validator::", "(anonymous namespace)::parse_command_line",
                  "(anonymous namespace)::get_option_value", "main")
LAYOUT_FUNCS_OLD = ("sbe_schema_validator::validate_field_offset", "sbe_schema_validator::validate_element_offset",
                "sbe_schema_validator::validate_block_length")


def effects_of(fn):
    """assignments in a function: (lhs text, op, rhs text, guard)"""
    par = gen.parents(fn)
    out = []
    for n in walk(fn["body"]):
        k = n.get("k")
        if (k == "BinaryOperator" and n.get("op") == "=") or k == "CompoundAssignOperator":
            out.append((opt_norm(gen.expr_text(n["lhs"], 0, fn)), n["op"], opt_norm(gen.expr_text(n["rhs"], 0, fn)),
                        guard_of(fn, n, par)))
        elif k == "CXXOperatorCallExpr" and n.get("op") in ("=", "+="):
            xs = ([n["obj"]] if n.get("obj") is not None else []) + (n.get("args") or [])
            out.append((opt_norm(gen.expr_text(xs[0], 0, fn)), n["op"], opt_norm(gen.expr_text(xs[1], 0, fn)), guard_of(fn, n, par)))
        elif k == "CXXMemberCallExpr" and (n.get("callee") or {}).get("name") in MUTATORS and n.get("obj") is not None:
            # state updates on member containers (visited sets, processing states, contexts)
            o = n["obj"]
            root = o
            while root is not None and root.get("k") in ("MemberExpr", "ImplicitCastExpr") and root.get("base") is not None and root.get("k") == "MemberExpr":
                if root["base"].get("k") == "CXXThisExpr":
                    break
                root = root.get("base")
            is_member = False
            for y in walk(o):
                if y.get("k") == "MemberExpr" and (y.get("base") or {}).get("k") == "CXXThisExpr":
                    is_member = True
            if is_member:
                args = ", ".join(opt_norm(gen.expr_text(a, 0, fn)) for a in n.get("args") or [])
                out.append((opt_norm(gen.expr_text(o, 0, fn)), "." + n["callee"]["name"], args[:160], guard_of(fn, n, par)))
    if fn["file"].endswith("main.cpp"):
        # the command line parser: loop counter steps, the loop header and calls that end the process
        for n in walk(fn["body"]):
            k = n.get("k")
            if k == "UnaryOperator" and n.get("op") in ("++", "--"):
                out.append((opt_norm(gen.expr_text(n["sub"], 0, fn)), n["op"], "", guard_of(fn, n, par)))
            elif k == "ForStmt" and n.get("cond") is not None:
                out.append(("for", "while", " && ".join(sorted(norm_cond(n["cond"], True, fn))) + " ; " +
                            (opt_norm(gen.expr_text(n["inc"], 0, fn)) if n.get("inc") is not None else ""), guard_of(fn, n, par)))
            elif k == "CallExpr" and (n.get("callee") or {}).get("name") in ("print_help_and_exit", "print_version_and_exit", "exit",
                                                                            "parse_command_line", "get_option_value"):
                out.append(((n["callee"]["name"]), ".call", ", ".join(opt_norm(gen.expr_text(a, 0, fn)) for a in n.get("args") or [])[:120],
                            guard_of(fn, n, par)))
    # calls from one validation step to another: which checks run, and under which condition
    byk0 = _fn_by_key()
    for n in walk(fn["body"]):
        if n.get("k") in ("CallExpr", "CXXMemberCallExpr"):
            c = n.get("callee") or {}
            if c.get("key") in byk0 and (c.get("name") or "").startswith("validate_") and not fn["file"].endswith("main.cpp"):
                out.append((c["name"], ".call", ", ".join(opt_norm(gen.expr_text(a, 0, fn)) for a in n.get("args") or [])[:120],
                            guard_of(fn, n, par)))
    # calls that update a variable of the caller through a non-const reference parameter (advance_offset(current_offset, ...))
    byk = _fn_by_key()
    for n in walk(fn["body"]):
        if n.get("k") not in ("CallExpr", "CXXMemberCallExpr"):
            continue
        c = n.get("callee") or {}
        tgt = byk.get(c.get("key"))
        if tgt is None:
            continue
        ps = tgt.get("params") or []
        outp = [i for i, p_ in enumerate(ps) if (p_.get("t") or "").rstrip().endswith("&") and not (p_.get("t") or "").startswith("const ")]
        args = n.get("args") or []
        if not outp or any(i >= len(args) for i in outp):
            continue
        out.append((opt_norm(gen.expr_text(args[outp[0]], 0, fn)), ".via " + c.get("name", "?"),
                    ", ".join(opt_norm(gen.expr_text(a, 0, fn)) for j, a in enumerate(args) if j not in outp)[:160], guard_of(fn, n, par)))
    return sorted(set((a, b, c, tuple(d)) for a, b, c, d in out))


_FBK = {}


def _fn_by_key():
    f = gen.facts()
    k = id(f)
    if k not in _FBK:
        _FBK[k] = {fn["key"]: fn for fn in gen.sbeppc_functions(f) if fn.get("key") and fn["file"].endswith(RETURN_FILES)}
    return _FBK[k]


RETURN_FILES = ("sbe_schema_validator.hpp", "sbe_schema_cpp_validator.hpp", "utils.hpp")


def ret_key(fn):
    """stable name of a value-returning helper of the validators; lambdas are named after their owner + parameters"""
    if fn.get("lambda"):
        base = fn.get("base") or fn.get("qn") or ""
        owner = base.split("(")[0]
        owner = re.sub(r"^sbepp::sbeppc::", "", owner)
        ps = ",".join(re.sub(r"sbepp::sbeppc::|std::|const |&| ", "", p.get("t", "")) for p in fn.get("params") or [])
        return "%s::(lambda %s)" % (owner, ps[:80])
    return short_fn(fn)


def returns_of(fn):
    """value-returning exits of a helper: (normalised returned expression, dominating guard)"""
    par = gen.parents(fn)
    out = []
    is_bool = (fn.get("ret") or "").replace("const ", "") == "bool"
    for n in walk(fn["body"]):
        if n.get("k") != "ReturnStmt" or n.get("sub") is None:
            continue
        # returns of nested lambdas belong to those lambdas
        cur, inside = n, False
        while id(cur) in par:
            cur = par[id(cur)][0]
            if cur.get("k") == "LambdaExpr":
                inside = True
                break
        if inside:
            continue
        if is_bool:
            e = " && ".join(sorted(norm_cond(n["sub"], True, fn)))
        else:
            e = opt_norm(gen.expr_text(n["sub"], 0, fn))
        out.append((e[:300], tuple(guard_of(fn, n, par))))
    return sorted(set(out))


def extract_returns(f=None):
    gen.SHOW_TARGS = True
    try:
        return _extract_returns(f)
    finally:
        gen.SHOW_TARGS = False


def _extract_returns(f=None):
    f = f or gen.facts()
    out = {}
    # generic lambdas (`[](const auto& v) { return v.name == ...; }`) only exist as templates: their dependent
    # bodies are read as written
    fns = gen.sbeppc_functions(f) + [fn for fn in f["functions"] if "/sbeppc/src/" in fn["file"] and fn.get("body") is not None
                                     and fn.get("dependent") and fn.get("lambda")]
    for fn in fns:
        if not fn["file"].endswith(RETURN_FILES) or fn.get("body") is None:
            continue
        rt = fn.get("ret") or "void"
        if rt == "void" or (fn.get("dependent") and not fn.get("lambda")):
            continue
        rs = returns_of(fn)
        if rs:
            out.setdefault(ret_key(fn), []).append((rs, fn))
    return out


def check_returns(chk):
    """G-RET: every value-returning helper the validators decide with (is_sbe_symbolic_name, can_be_parsed_as_fp,
    value_fits_into_type, get_actual_presence, find_value_ref's matcher, is_*_type ...) returns, at each exit, the
    hand-confirmed expression under the hand-confirmed guard."""
    table = json.load(open(TABLE))
    want_all = table.get("returns")
    if not want_all:
        chk.broke("rules/validator_guards.json has no `returns` section")
        return
    found = extract_returns()
    n = 0
    for key, variants in want_all.items():
        got = found.get(key)
        if not got:
            chk.broke("G-RET: helper %s not found (renamed or removed: re-confirm the table)" % key)
            continue
        wants = [sorted((e, tuple(g)) for e, g in v) for v in variants]
        for rs, fn in got:
            n += 1
            if rs in wants:
                chk.ok("G-RET", key + "#" + str(fn["line"]), {"helper": key, "exits": len(rs)})
                continue
            want = wants[0]
            missing = [x for x in want if x not in rs]
            added = [x for x in rs if x not in want]
            known = set(p["name"] for p in fn.get("params") or [])
            for v in wants:
                for e, g in v:
                    known |= idents(e) | idents(" ".join(g))
            unknown = set()
            for e, g in added:
                unknown |= idents(e) | idents(" ".join(g))
            unknown -= known | {"this", "operator", "bool"}
            text = "exits of %s changed: confirmed %s, found %s" % (key, missing, added)
            if unknown:
                chk.broke("G-RET: %s uses identifiers the confirmed row does not know %s: %s" % (key, sorted(unknown)[:6], text[:400]))
            else:
                chk.violation("G-RET", key, "%s:%s" % (rel(fn["file"]), fn["line"]), text)
    new = [k for k in found if k not in want_all]
    for k in new:
        chk.notes.append("G-RET: helper without a table row: %s" % k)
    chk.floor("G-RET helpers", n, 20)


SCAN_ALGOS = {"find_if", "find_if_not", "all_of", "any_of", "none_of", "find", "count_if", "count", "adjacent_find", "search", "mismatch"}


def check_scans(chk):
    """G-SCAN: a predicate of the validators that classifies a string / collection parameter by scanning it with a std
    range algorithm must scan all of it: the range is exactly [begin(p), end(p)).  A range that starts later is
    accepted only if the skipped front element is classified separately by a dominating test that applies one of the
    scan's own classifiers to it (e.g. `isalpha(name[0])` before scanning from the second character); otherwise the
    skipped positions accept anything (an invalid first character passes `is_sbe_symbolic_name`)."""
    f = gen.facts()
    n = 0
    for fn in gen.sbeppc_functions(f):
        if (fn.get("ret") or "").replace("const ", "") != "bool":
            continue
        owner = short_fn(fn)
        if not any(owner.startswith(c) for c in ("sbe_schema_validator::", "sbe_schema_cpp_validator::", "utils::")):
            continue
        params = {p["name"] for p in fn.get("params") or [] if p.get("name")}
        par = None
        for x in walk(fn["body"]):
            c = x.get("callee") or {}
            if c.get("name") not in SCAN_ALGOS or not (c.get("base") or "").startswith("std::"):
                continue
            args = x.get("args") or []
            if len(args) < 2:
                continue
            a0, a1 = gen.expr_text(args[0], 0, fn), gen.expr_text(args[1], 0, fn)
            m = re.search(r"c?begin\((\w+)\)|(\w+)\.c?begin\(\)", a0)
            if not m:
                continue
            p = m.group(1) or m.group(2)
            if p not in params:
                continue
            n += 1
            key = "scan:%s:%s" % (owner, c.get("name"))
            where = "%s:%s" % (rel(fn["file"]), x.get("l"))
            whole0 = re.fullmatch(r"\(?c?begin\(%s\)\)?|\(?%s\.c?begin\(\)\)?" % (p, p), a0) is not None
            whole1 = re.fullmatch(r"\(?c?end\(%s\)\)?|\(?%s\.c?end\(\)\)?" % (p, p), a1) is not None
            if whole0 and whole1:
                chk.ok("G-SCAN", key + "#%s" % x.get("l"), {"where": where, "range": "[%s, %s)" % (a0, a1)}, nontrivial=True)
                continue
            # classifiers the scan applies (callees inside the predicate argument)
            classifiers = set()
            for a in args[2:]:
                for y in walk(a):
                    cn = (y.get("callee") or {}).get("name")
                    if cn:
                        classifiers.add(cn)
            par = par or gen.parents(fn)
            conds = [(gen.expr_text(cn, 0, fn), pol) for cn, pol in gen.dominating_conditions(fn, x, par)]
            front = [t for t, pol in conds if re.search(r"%s\[0\]|%s\.front\(\)|\*c?begin\(%s\)" % (p, p, p), t)]
            covered = any(any((cl + "(") in t for cl in classifiers if cl not in ("operator()", "operator==")) for t in front)
            if whole1 and covered:
                chk.ok("G-SCAN", key + "#%s" % x.get("l"), {"where": where, "range": "[%s, %s)" % (a0, a1), "front_classified_by": front[:2]}, nontrivial=True)
            else:
                chk.violation("G-SCAN", key, where,
                              "%s scans only [%s, %s) of `%s`; the skipped positions are tested by {%s}, none of which applies the "
                              "scan's classifiers %s: they accept anything" % (owner, a0, a1, p, "; ".join(front) or "nothing", sorted(classifiers)[:5]))
    chk.floor("G-SCAN predicates", n, 1)
    return n


UNIQUE_ADDERS = ("add_unique_type", "add_or_throw", "add_unique_message")


def check_unique_insertion(chk):
    """G-UNIQ: the schema-level name tables (`message_schema.types`, the message list / id sets) are written only by
    the adders that report a duplicate (`add_unique_type`, `unique_set::add_or_throw`): any other insertion into them
    (`insert(first, last)`, `operator[]`, `emplace`, `merge` ...) silently keeps one of two same-named entities -
    a duplicate name that reaches the table through that path is never reported"""
    f = gen.facts()
    n = 0
    for fn in gen.sbeppc_functions(f):
        sf = short_fn(fn)
        if not sf.startswith("schema_parser::"):
            continue
        for x in walk(fn["body"]):
            c = x.get("callee") or {}
            if x.get("k") not in ("CXXMemberCallExpr", "CXXOperatorCallExpr") or x.get("obj") is None:
                continue
            if c.get("name") not in ("insert", "emplace", "try_emplace", "insert_or_assign", "merge", "operator[]", "emplace_hint", "swap"):
                continue
            ot = gen.expr_text(x["obj"], 0, fn)
            t = (x["obj"].get("t") or "")
            if not (re.search(r"message_schema\.types$|\.types$", ot) and "unordered_map" in t):
                continue
            n += 1
            key = "unique-insert:%s:%s" % (sf, c.get("name"))
            where = "%s:%s" % (rel(fn["file"]), x.get("l"))
            if fn["name"] in UNIQUE_ADDERS:
                chk.ok("G-UNIQ", key, {"where": where, "table": ot, "adder": fn["name"]}, nontrivial=True)
            else:
                chk.violation("G-UNIQ", key, where,
                              "%s writes the schema type table `%s` with %s(...) outside the duplicate-reporting adder: a second "
                              "type of the same (case-insensitive) name arriving on this path is dropped or replaces the first "
                              "without any diagnostic" % (sf, ot, c.get("name")))
    chk.floor("G-UNIQ insertions into the type table", n, 1)
    # one name scope per level: fields, groups and data of a level become members of one generated class, so their names
    # are checked against ONE set - every call of the member-name check inside a function passes the same set variable
    m = 0
    for fn in gen.sbeppc_functions(f):
        sf = short_fn(fn)
        if not sf.startswith("schema_parser::"):
            continue
        sets = {}
        for x in walk(fn["body"]):
            c = x.get("callee") or {}
            if c.get("name") != "throw_if_not_unique_member_name":
                continue
            a = x.get("args") or []
            if not a:
                continue
            v = gen.strip(a[0])
            sets.setdefault((v or {}).get("did", gen.expr_text(a[0], 0, fn)), []).append(x.get("l"))
        if not sets:
            continue
        m += 1
        key = "member-scope:%s" % sf
        where = "%s:%s" % (rel(fn["file"]), fn["line"])
        if len(sets) > 1:
            chk.violation("G-UNIQ", key, where,
                          "%s checks member names against %d different sets (calls at lines %s): a field, a group and a data member of "
                          "one level may then share a name - they become members of the same generated class" % (sf, len(sets), sorted(sum(sets.values(), []))))
        else:
            chk.ok("G-UNIQ", key, {"calls": len(list(sets.values())[0]), "one_set": True}, nontrivial=True)
    chk.floor("G-UNIQ member-name scopes", m, 1)
    return n


def extract(f=None):
    gen.SHOW_TARGS = True
    try:
        return _extract(f)
    finally:
        gen.SHOW_TARGS = False


def _extract(f=None):
    f = f or gen.facts()
    sites = {}
    for fc in gen.format_calls(f):
        if fc.kind != "throw_error":
            continue
        par = gen.parents(fc.fn)
        g = guard_of(fc.fn, fc.node, par)
        k = site_key(fc)
        sites.setdefault(k, []).append((g, fc))
    effects = {}
    for fn in gen.sbeppc_functions(f):
        sf = short_fn(fn)
        if sf.startswith(EFFECT_CLASSES) and not fn.get("lambda"):
            eff = effects_of(fn)
            if eff:
                effects.setdefault(sf, []).append((eff, fn))
    return sites, effects


def idents(s):
    return set(re.findall(r"[A-Za-z_][A-Za-z_0-9]*", s))


def check(chk, only_prefixes=None, effects=True):
    if not os.path.exists(TABLE):
        raise AnalysisBroken("rules/validator_guards.json missing")
    table = json.load(open(TABLE))
    sites, effects_found = extract()
    want_sites = table["sites"]
    for key, row in want_sites.items():
        if only_prefixes and not any(key.startswith(p) for p in only_prefixes):
            continue
        found = sites.get(key)
        if not found:
            chk.broke("G-GUARD: throw site `%s` not found (diagnostic reworded or removed: re-key the rule table; "
                      "if the check was removed this is a C08 violation)" % key)
            continue
        want = sorted(row["guard"])
        alts = [want] + [sorted(x) for x in row.get("other_instantiations", [])]
        for g, fc in found:
            if g in alts:
                chk.ok("G-GUARD", key + "#" + str(fc.line), {"site": key, "guard": g, "where": fc.where})
            else:
                known = idents(" ".join(want)) | set(p["name"] for p in fc.fn.get("params") or []) | idents(row.get("vocab", ""))
                unknown = idents(" ".join(g)) - known - {"this", "operator", "bool"}
                text = ("guard of `%s` is {%s}, the rule stated by the diagnostic is {%s} (%s)"
                        % (key, "; ".join(g), "; ".join(want), row.get("rule", "")))
                if unknown and len(unknown) > 2:
                    chk.broke("G-GUARD: %s uses unknown vocabulary %s: %s" % (key, sorted(unknown)[:6], text))
                else:
                    chk.violation("G-GUARD", key, fc.where, text)
    extra = [k for k in sites if k not in want_sites]
    for k in extra:
        if only_prefixes and not any(k.startswith(p) for p in only_prefixes):
            continue
        chk.notes.append("G-GUARD: new throw site without a table row: %s" % k)
    for fnname, rows in (table.get("effects", {}).items() if effects else ()):
        found = effects_found.get(fnname)
        if not found:
            chk.broke("G-GUARD: layout function %s not found" % fnname)
            continue
        variants = rows if rows and isinstance(rows[0], list) and rows[0] and isinstance(rows[0][0], list) else [rows]
        wants = [sorted((a, b, c, tuple(d)) for a, b, c, d in v) for v in variants]
        want = wants[0]
        for eff, fn in found:
            # template instantiations may differ (e.g. constexpr-if arms): any recorded variant is accepted
            if eff in wants:
                chk.ok("G-EFFECT", fnname + "#" + (fn["qn"][-60:]), {"function": fnname, "assignments": len(eff)})
            else:
                missing = [x for x in want if x not in eff]
                added = [x for x in eff if x not in want]
                known = set()
                for v in wants:
                    for a, b, c, d in v:
                        known |= idents(a) | idents(c) | idents(" ".join(d))
                known |= set(p["name"] for p in fn.get("params") or [])
                unknown = set()
                for a, b, c, d in added:
                    unknown |= idents(a) | idents(c) | idents(" ".join(d))
                unknown -= known | {"this", "operator", "bool"}
                text = "state updates of %s changed: missing %s, unexpected %s" % (fnname, missing, added)
                if unknown:
                    # renamed members / new vocabulary: the table row has to be re-confirmed, nothing is decided
                    chk.broke("G-EFFECT: %s uses identifiers the confirmed row does not know %s: %s" % (fnname, sorted(unknown)[:6], text))
                else:
                    chk.violation("G-EFFECT", fnname, "%s:%s" % (rel(fn["file"]), fn["line"]), text)


def regen():
    sites, effects = extract()
    old = json.load(open(TABLE)) if os.path.exists(TABLE) else {"sites": {}, "effects": {}}
    out = {"comment": "hand-confirmed guards of sbeppc throw sites (key = function | diagnostic text) and layout effects; "
                      "regenerated with sa/gguard.py --regen and then reviewed line by line against the rule the "
                      "diagnostic states",
           "sites": {}, "effects": {}, "returns": {}}
    for k, lst in sorted(extract_returns().items()):
        vs = []
        for rs, _ in lst:
            v = [[e, list(g)] for e, g in rs]
            if v not in vs:
                vs.append(v)
        out["returns"][k] = vs
    for k, lst in sorted(sites.items()):
        gs = sorted(set(tuple(g) for g, _ in lst))
        row = old["sites"].get(k, {})
        out["sites"][k] = {"guard": list(gs[0]), "rule": row.get("rule", ""), "instances": len(lst)}
        if len(gs) > 1:
            out["sites"][k]["other_instantiations"] = [list(g) for g in gs[1:]]
    for k, lst in sorted(effects.items()):
        vs = []
        for eff, _ in lst:
            v = [list(x[:3]) + [list(x[3])] for x in eff]
            if v not in vs:
                vs.append(v)
        out["effects"][k] = vs
    os.makedirs(os.path.dirname(TABLE), exist_ok=True)
    json.dump(out, open(TABLE, "w"), indent=1)
    print("wrote", TABLE, len(out["sites"]), "sites")





def check_memo_caches(chk):
    """G-CACHE: a validator that skips its checks when `S.count(key)` says the key was seen before relies on S holding
    exactly the keys *it* has validated.  For every such memo guard (name-independent, found by shape): the container
    tested is the one filled inside the guarded block, and no other function fills it."""
    f = gen.facts()
    memo = {}        # container text -> [(function, inserts-under-own-guard)]
    fills = {}       # container text -> set(functions that add to it)
    where_of = {}
    for fn in gen.sbeppc_functions(f):
        sf = short_fn(fn)
        if not sf.startswith(EFFECT_CLASSES) or fn.get("lambda"):
            continue
        where_of[sf] = "%s:%s" % (rel(fn["file"]), fn["line"])
        for (obj, op, args, guard) in effects_of(fn):
            if op not in (".insert", ".emplace", ".try_emplace"):
                continue
            fills.setdefault(obj, set()).add(sf)
            for g in guard:
                m = re.match(r"^!\s*(.+?)\.(count|contains)\(", g) or re.match(r"^(.+?)\.find\(.*\)\s*==\s*.*end\(\)", g)
                if m:
                    memo.setdefault(sf, []).append((m.group(1).strip(), obj))
    n = 0
    for sf, pairs in sorted(memo.items()):
        for tested, filled in sorted(set(pairs)):
            n += 1
            key = "memo:%s" % sf
            others = sorted(fills.get(tested, set()) - {sf})
            if tested != filled:
                chk.violation("G-CACHE", key, where_of[sf],
                              "%s skips its checks when `%s` has the key but records what it validated in `%s`: the two "
                              "caches get out of step and a header of one kind is taken as validated for the other" % (sf, tested, filled))
            elif others:
                chk.violation("G-CACHE", key, where_of[sf],
                              "%s skips its checks for keys found in `%s`, which %s fill(s) too after running *different* checks: "
                              "an entity validated in one role is accepted unchecked in the other (the generators then "
                              "dereference what the skipped checks guarantee)" % (sf, tested, others))
            else:
                chk.ok("G-CACHE", key, {"cache": tested, "only_filled_by": sf})
    chk.floor("memo guards", n, 2)


if __name__ == "__main__":
    if "--regen" in sys.argv:
        regen()

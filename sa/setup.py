#!/usr/bin/env python3
"""MANIFEST.setup_cmd: build the fact extractor, validate rule tables."""
import glob
import json
import os
import sys

sys.path.insert(0, os.path.dirname(os.path.abspath(__file__)))
from common import *  # noqa


def main():
    tool = ensure_tool()
    print("tool:", tool)
    for p in glob.glob(os.path.join(VERIF, "rules", "*.json")) + [os.path.join(VERIF, "known_findings.json")]:
        json.load(open(p))
        print("ok:", os.path.relpath(p, VERIF))
    return 0


if __name__ == "__main__":
    sys.exit(main())

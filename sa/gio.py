"""I/O error discipline and determinism of sbeppc (C20)."""
import re

from common import *
import gen
import gguard

FILE_APIS = ("std::basic_ofstream", "std::basic_ifstream", "std::basic_fstream", "std::filesystem::",
             "fopen", "fwrite", "std::fopen", "std::fwrite", "open", "write", "std::rename", "std::remove")
NONDET = ("std::chrono::", "std::random_device", "std::rand", "rand", "srand", "time", "std::time", "clock", "getpid",
          "std::getenv", "getenv", "std::this_thread", "std::mt19937", "std::tmpnam", "tmpnam", "mkstemp", "gettimeofday",
          "std::locale::global")


def fs_functions(f):
    return [fn for fn in gen.sbeppc_functions(f) if "fs_provider::" in gguard.short_fn(fn)]


def stream_vars(fn, kind):
    out = {}
    for n in walk(fn["body"]):
        if n.get("k") == "VarDecl" and kind in (n.get("t") or ""):
            out[n["did"]] = n["name"]
    return out


def refs_var(n, did):
    for x in walk(n):
        if x.get("k") == "DeclRefExpr" and x.get("did") == did:
            return True
    return False


def order_index(fn):
    idx = {}
    for i, n in enumerate(walk(fn["body"])):
        idx[id(n)] = i
    return idx


def check_write_discipline(chk):
    f = gen.facts()
    fns = {gguard.short_fn(fn): fn for fn in fs_functions(f)}
    for need in ("fs_provider::write_file", "fs_provider::read_file", "fs_provider::create_directories"):
        if need not in fns:
            chk.broke("fs_provider function %s not found" % need)
    # ---- write_file: open checked, every write followed by flush/close and a state test that throws
    fn = fns.get("fs_provider::write_file")
    if fn:
        where = "%s:%s" % (rel(fn["file"]), fn["line"])
        vs = stream_vars(fn, "basic_ofstream")
        key = "write_file"
        # counting writes: an API that reports how much it wrote only through its return value (`write(2)` wrappers such as
        # fmt::file::write, streambuf::sputn, fwrite) - a short write is a normal outcome there, not an error, and a
        # discarded count means a truncated file with exit 0
        par0 = gen.parents(fn)
        n_count = 0
        for n in walk(fn["body"]):
            c = n.get("callee") or {}
            if n.get("k") not in ("CXXMemberCallExpr", "CallExpr") or c.get("name") not in ("write", "sputn", "fwrite", "xsputn", "pwrite", "writev"):
                continue
            rt = (c.get("ret") or n.get("t") or "")
            if "basic_ostream" in rt or rt in ("void", ""):
                continue            # a stream's write(): failures are reported through the stream state (rules below)
            n_count += 1
            parent = par0.get(id(n), (None, None))[0]
            while parent is not None and parent.get("k") in ("ImplicitCastExpr", "ExprWithCleanups", "ParenExpr", "CXXStaticCastExpr") \
                    and "void" not in (parent.get("t") or ""):
                parent = par0.get(id(parent), (None, None))[0]
            discarded = parent is None or parent.get("k") in ("CompoundStmt", "IfStmt", "ForStmt", "WhileStmt", "CXXTryStmt") \
                or (parent.get("k") in ("CStyleCastExpr", "CXXStaticCastExpr", "CXXFunctionalCastExpr") and "void" in (parent.get("t") or ""))
            wl = "%s:%s" % (rel(fn["file"]), n.get("l"))
            if discarded:
                chk.violation("G-IO.write", "write_file:count", wl,
                              "fs_provider::write_file calls %s(...), which reports the number of bytes written through its return "
                              "value, and discards it: a short write (disk filling up, quota, interrupted write) leaves a truncated "
                              "file and sbeppc exits 0" % (c.get("base") or c.get("name")))
            else:
                chk.ok("G-IO.write", "write_file:count#%s" % n.get("l"), {"where": wl, "call": c.get("name"), "result_used_by": parent.get("k")}, nontrivial=True)
        if not vs and not n_count:
            chk.broke("write_file uses neither an std::ofstream nor a counting write: extend gio.py")
        for did, name in vs.items():
            idx = order_index(fn)
            writes, syncs, tests = [], [], []
            weak = set()
            par = gen.parents(fn)
            for n in walk(fn["body"]):
                c = n.get("callee") or {}
                if n.get("k") in ("CXXOperatorCallExpr", "CallExpr") and (n.get("op") == "<<" or c.get("name") in ("write", "put")) and refs_var(n, did):
                    writes.append(n)
                if n.get("k") == "CXXMemberCallExpr" and c.get("name") in ("write", "put") and n.get("obj") and refs_var(n["obj"], did):
                    writes.append(n)
                if n.get("k") == "CXXMemberCallExpr" and c.get("name") in ("close", "flush") and n.get("obj") and refs_var(n["obj"], did):
                    syncs.append(n)
                if n.get("k") == "IfStmt" and refs_var(n["cond"], did):
                    # failing arm must raise
                    conds = gguard.norm_cond(n["cond"], True, fn)
                    neg_test = any(c2.startswith("!") or ".fail()" in c2 or ".bad()" in c2 for c2 in conds)
                    arm = n.get("then") if neg_test else n.get("else")
                    if arm is not None and gen.always_exits(arm) and any((x.get("callee") or {}).get("name") == "throw_error" for x in walk(arm)):
                        tests.append(n)
                        # which iostate bits the test sees: operator!/fail() = failbit|badbit, !good() = any bit,
                        # bad() = badbit only (basic_filebuf::close() and a failed flush report through failbit)
                        if not any(re.match(r"^!\s*[\w.>-]+$", c2) or ".fail()" in c2 or re.match(r"^!.*\.good\(\)$", c2) or re.match(r"^!.*\.is_open\(\)$", c2)
                                   for c2 in conds):
                            weak.add(id(n))
            # open mode
            init = None
            for n in walk(fn["body"]):
                if n.get("k") == "VarDecl" and n.get("did") == did:
                    init = n.get("init")
            mode_txt = gen.expr_text(init, 0, fn) if init is not None else ""
            errs = []
            if not tests or idx[id(tests[0])] > (idx[id(writes[0])] if writes else 10 ** 9):
                errs.append("the stream is not tested (with a throwing failure arm) after opening and before the first write")
            if not writes:
                errs.append("no write found")
            else:
                lastw = max(idx[id(w)] for w in writes)
                after_sync = [s for s in syncs if idx[id(s)] > lastw]
                if not after_sync:
                    errs.append("no flush()/close() after the last write: buffered data reaches the file (and ENOSPC/EIO surface) only then")
                sync_at = min([idx[id(s)] for s in after_sync] or [lastw])
                after_tests = [t for t in tests if idx[id(t)] > sync_at]
                if after_tests and all(id(t) in weak for t in after_tests):
                    errs.append("the state test after the write looks at badbit only (bad()): close() and a failed flush of the "
                                "buffered data set failbit, so a failed write of a file that fits the stream buffer ends in exit 0")
                if not after_tests:
                    errs.append("the stream state is not tested after the write%s: a failed or short write ends in exit 0"
                                % (" + flush/close" if after_sync else ""))
            if re.search(r"\bapp\b|\bate\b", mode_txt):
                errs.append("file opened with app/ate: an already populated directory would not be overwritten identically")
            if errs:
                chk.violation("G-IO.write", key, where, "fs_provider::write_file: " + "; ".join(errs))
            else:
                chk.ok("G-IO.write", key, {"where": where, "writes": len(writes), "sync_after_last_write": True, "state_tests": len(tests)})
    fn = fns.get("fs_provider::create_directories")
    if fn:
        where = "%s:%s" % (rel(fn["file"]), fn["line"])
        calls = [n for n in walk(fn["body"]) if (n.get("callee") or {}).get("name") == "create_directories"]
        ok_ec = False
        for n in calls:
            if len(n.get("args") or []) >= 2:
                # error_code overload: ec must be tested with a throwing arm
                for x in walk(fn["body"]):
                    if x.get("k") == "IfStmt" and gen.always_exits(x.get("then")):
                        if any((y.get("callee") or {}).get("name") == "throw_error" for y in walk(x["then"])):
                            ok_ec = True
            else:
                ok_ec = True    # throwing overload: filesystem_error is reported by main's std::exception handler
        if not calls or not ok_ec:
            chk.violation("G-IO.mkdir", "create_directories", where, "directory creation failure is not turned into an error")
        else:
            chk.ok("G-IO.mkdir", "create_directories", {"where": where})
    fn = fns.get("fs_provider::read_file")
    if fn:
        where = "%s:%s" % (rel(fn["file"]), fn["line"])
        throws = [n for n in walk(fn["body"]) if (n.get("callee") or {}).get("name") == "throw_error"]
        rets = [n for n in walk(fn["body"]) if n.get("k") == "ReturnStmt"]
        par = gen.parents(fn)
        bad = []
        for r in rets:
            g = gguard.guard_of(fn, r, par)
            if not any("read(" in x and not x.startswith("!") for x in g):
                bad.append(g)
        # the number of bytes read is tellg(): that is the file size only if the stream was positioned at the end
        # first (open mode `ate`, or a seekg(0, end) before tellg)
        size_bad = None
        tell = [n for n in walk(fn["body"]) if (n.get("callee") or {}).get("name") == "tellg"]
        if tell:
            idx = order_index(fn)
            first_tell = min(idx[id(n)] for n in tell)
            seek_end = [n for n in walk(fn["body"]) if (n.get("callee") or {}).get("name") == "seekg" and len(n.get("args") or []) == 2
                        and idx[id(n)] < first_tell]
            mode = None
            for n in walk(fn["body"]):
                if n.get("k") == "VarDecl" and "ifstream" in (n.get("t") or "") and (n.get("init") or {}).get("args"):
                    a = n["init"]["args"]
                    if len(a) > 1 and "cv" in a[1]:
                        mode = int(a[1]["cv"])
            flags = ios_flags()
            if not seek_end and (mode is None or not (mode & flags["ate"])):
                size_bad = "tellg() is taken as the file size but the stream is not at the end (open mode %s lacks std::ios::ate and no seekg(0, end) precedes it): the schema is read as empty" % mode
        if len(throws) < 2 or bad:
            chk.violation("G-IO.read", "read_file", where, "read_file returns data without a successful read test (%s)" % bad)
        elif size_bad:
            chk.violation("G-IO.read", "read_file", where, "read_file: " + size_bad)
        else:
            chk.ok("G-IO.read", "read_file", {"where": where})


def check_error_codes(chk):
    """G-IO.ec: an `std::error_code` handed to a call reports that call's outcome only until the next call it is
    handed to (every error_code overload clears or overwrites it).  For every local error_code of the sbeppc TU: each
    call that receives it must be followed - before the next call that receives it and before the function returns -
    by a test of the variable whose failing arm leaves the function through throw_error / a throw / a non-zero
    return.  Otherwise the failure of that operation is lost (the file is missing or stale and sbeppc exits 0)."""
    f = gen.facts()
    n = 0
    for fn in gen.sbeppc_functions(f):
        ecs = stream_vars(fn, "error_code")
        if not ecs:
            continue
        idx = order_index(fn)
        where = "%s:%s" % (rel(fn["file"]), fn["line"])
        for did, name in ecs.items():
            writers, tests = [], []
            for x in walk(fn["body"]):
                c = x.get("callee")
                if c and x.get("k") in ("CallExpr", "CXXMemberCallExpr", "CXXOperatorCallExpr"):
                    args = x.get("args") or []
                    if any(refs_var(a, did) for a in args) and c.get("name") not in ("throw_error", "format", "arg", "message"):
                        # only calls that take the variable itself (an lvalue), not `ec.message()` passed along
                        direct = any(gen.strip(a) is not None and gen.strip(a).get("k") == "DeclRefExpr" and gen.strip(a).get("did") == did for a in args)
                        if direct:
                            writers.append(x)
                if x.get("k") == "IfStmt" and refs_var(x.get("cond") or {}, did):
                    leaves = gen.always_exits(x.get("then")) or (x.get("else") is not None and gen.always_exits(x.get("else")))
                    tests.append((x, leaves))
            writers.sort(key=lambda w: idx[id(w)])
            for i, w in enumerate(writers):
                n += 1
                nxt = idx[id(writers[i + 1])] if i + 1 < len(writers) else None
                cname = (w.get("callee") or {}).get("name")
                key = "ec:%s:%s#%d" % (gguard.short_fn(fn), cname, i)
                good = [t for t, leaves in tests if leaves and idx[id(t)] > idx[id(w)] and (nxt is None or idx[id(t)] < nxt)]
                wl = "%s:%s" % (rel(fn["file"]), w.get("l"))
                if good:
                    chk.ok("G-IO.ec", key, {"where": wl, "call": cname, "tested_at_line": good[0].get("l")}, nontrivial=True)
                else:
                    chk.violation("G-IO.ec", "ec:%s:%s" % (gguard.short_fn(fn), cname), wl,
                                  "the error_code `%s` set by %s(...) in %s is %s: a failure of that call is never reported and "
                                  "sbeppc exits 0" % (name, cname, gguard.short_fn(fn),
                                                     "handed to %s(...) before it is tested" % ((writers[i + 1].get("callee") or {}).get("name"))
                                                     if nxt is not None else "not tested with an arm that raises an error"))
    chk.floor("error_code call sites", n, 1)
    return n


_IOS = {}


def ios_flags():
    """values of the std::ios open mode flags of the installed standard library (compile-time witness)"""
    if not _IOS:
        cand = {"app": 1, "ate": 2, "binary": 4, "in": 8, "out": 16, "trunc": 32}
        src = "#include <ios>\n" + "".join("static_assert(static_cast<int>(std::ios::%s) == %d, \"%s\");\n" % (k, v, k) for k, v in cand.items())
        d = os.path.join(CACHE, "wit")
        os.makedirs(d, exist_ok=True)
        p = os.path.join(d, "ios_flags.cpp")
        open(p, "w").write(src)
        r = run(["clang++", "-std=c++17", "-fsyntax-only", p])
        if r.returncode != 0:
            raise AnalysisBroken("std::ios open mode flag values differ from the expected libstdc++ ones: " + r.stderr[:300])
        _IOS.update(cand)
    return _IOS


def check_who_touches_disk(chk):
    """no file API outside fs_provider (and the stdout reporter)"""
    f = gen.facts()
    n = 0
    for fn in gen.sbeppc_functions(f):
        sf = gguard.short_fn(fn)
        for x in walk(fn["body"]):
            c = x.get("callee") or {}
            q = c.get("qn", "")
            cls = c.get("cls", "") or ""
            t = x.get("t", "") if x.get("k") == "VarDecl" else ""
            hit = None
            if any(cls.startswith(a) for a in ("std::basic_ofstream", "std::basic_ifstream", "std::basic_fstream")) and (x.get("ctor") or c.get("name", "").startswith("basic_")):
                hit = cls.split("<")[0]
            elif q.startswith("std::filesystem::") and not cls and not c.get("name", "").startswith("operator") \
                    and c.get("name") not in ("u8path", "swap", "hash_value"):
                # every free function of std::filesystem reads or changes the disk (queries included: file_size, exists,
                # last_write_time ... make what is written depend on what was there before)
                hit = q.split("(")[0].split("<")[0]
            elif cls.startswith("std::filesystem::") and any(cls.startswith("std::filesystem::" + a) for a in ("directory_iterator", "recursive_directory_iterator", "directory_entry", "file_status")):
                hit = cls.split("<")[0]
            elif c.get("name") in ("fopen", "fwrite", "open", "creat", "unlink", "rename", "remove") and not cls:
                hit = c.get("name")
            if hit:
                n += 1
                key = "disk:%s:%s" % (sf, hit)
                if sf.startswith("fs_provider::"):
                    chk.ok("G-IO.who", key, {"api": hit, "in": sf})
                else:
                    chk.violation("G-IO.who", key, "%s:%s" % (rel(fn["file"]), x.get("l")),
                                  "%s touches the file system through %s outside fs_provider: its failures bypass the checked "
                                  "I/O paths" % (sf, hit))
    chk.floor("G-IO.who file API sites", n, 3)


def check_determinism(chk):
    """no clock / random / pid / environment API, no iteration over a container keyed by pointers"""
    f = gen.facts()
    n_calls = 0
    for fn in gen.sbeppc_functions(f):
        sf = gguard.short_fn(fn)
        for x in walk(fn["body"]):
            c = x.get("callee") or {}
            if not c:
                continue
            n_calls += 1
            q = c.get("base", "") or c.get("qn", "")
            if any(q == a or (a.endswith("::") and q.startswith(a)) for a in NONDET):
                chk.violation("G-IO.determinism", "nondet:%s:%s" % (sf, q), "%s:%s" % (rel(fn["file"]), x.get("l")),
                              "%s calls %s: generated output would depend on time/randomness/environment" % (sf, q))
        for x in walk(fn["body"]):
            if x.get("k") == "CXXForRangeStmt":
                rs = x.get("rangestmt") or {}
                for d in rs.get("decls") or []:
                    t = d.get("t", "")
                    m = re.match(r"(?:const )?std::(?:unordered_)?(?:map|set)<(?:const )?([^,<>]*\*)", t)
                    if m:
                        chk.violation("G-IO.determinism", "ptr-keyed-iteration:%s" % sf, "%s:%s" % (rel(fn["file"]), x.get("l")),
                                      "%s iterates a container keyed by pointers (%s): order depends on allocation addresses" % (sf, t[:80]))
    # address-dependent values: ordering of pointers, pointers turned into integers or printed, hashing of pointers
    n_addr = 0
    for fn in gen.sbeppc_functions(f):
        sf = gguard.short_fn(fn)
        for x in walk(fn["body"]):
            k = x.get("k")
            why = None
            if k == "BinaryOperator" and x.get("op") in ("<", ">", "<=", ">=") and ((x.get("lhs") or {}).get("t", "")).endswith("*") \
                    and not (((x.get("lhs") or {}).get("t", "")).replace("const ", "").startswith("char")):
                why = "orders two pointers (`%s` on %s)" % (x.get("op"), (x.get("lhs") or {}).get("t", ""))
            elif k in ("CXXReinterpretCastExpr", "CStyleCastExpr", "CXXFunctionalCastExpr") and x.get("from", "").endswith("*") \
                    and not x.get("t", "").endswith("*") and "void" not in x.get("t", "") and x.get("t", "") != "bool":
                why = "turns a pointer into the integer type %s" % x.get("t")
            else:
                c = x.get("callee") or {}
                q = c.get("base", "") or ""
                if q == "fmt::ptr" or (q.startswith("std::hash<") and "*" in q.split("::operator")[0]):
                    why = "formats / hashes a pointer value (%s)" % q[:60]
            if k in ("BinaryOperator", "CXXReinterpretCastExpr", "CStyleCastExpr", "CallExpr", "CXXMemberCallExpr", "CXXOperatorCallExpr"):
                n_addr += 1
            if why:
                chk.violation("G-IO.determinism", "address:%s" % sf, "%s:%s" % (rel(fn["file"]), x.get("l")),
                              "%s %s: the value depends on where the allocator placed the objects, so two runs on the same schema "
                              "may differ" % (sf, why))
    chk.ok("G-IO.determinism", "address-dependent-values", {"nodes_scanned": n_addr}, nontrivial=True)
    chk.ok("G-IO.determinism", "calls-scanned", {"calls": n_calls}, nontrivial=True)
    # positive control: the rule recognises a clock call in a synthetic record
    fired = any("std::chrono::" == a for a in NONDET) and ("std::chrono::system_clock::now".startswith("std::chrono::"))
    chk.control("nondeterminism-pattern", fired)


# ------------------------------------------------------------------ G-INIT
BUILTIN = re.compile(r"^(const )?(unsigned |signed )?(char|short|int|long|long long|bool|float|double|wchar_t|char16_t|char32_t)( int)?$|^(const )?(unsigned|signed)$")


def check_initialised(chk):
    """G-INIT: the parse tree (`sbe::` structs) and the `*_context` structs are plain aggregates whose integer / bool /
    enum / pointer members have no default member initialisers: an object of such a type that is default-initialised
    (`sbe::field f;`) carries indeterminate values, and whichever of them the parser does not assign reaches the
    validators and the generated text - output that differs from run to run.  Every local of such a type must be
    value- / list-initialised (`T x{}`); scalar locals must have an initialiser too."""
    f = gen.facts()
    enums = {e["qn"] for e in f.get("enums", [])} | {"sbepp::field_presence", "sbepp::endian"}
    recs = {}
    for r in f["records"]:
        if "/sbeppc/src/" in r.get("file", ""):
            recs[r["qn"]] = r

    def scalar(t):
        t0 = t.replace("const ", "").strip()
        return bool(BUILTIN.match(t0)) or t0.endswith("*") or t0 in enums

    memo = {}

    def uninit_fields(qn, depth=0):
        """scalar members (transitively through member structs of the TU) without a default member initialiser"""
        if qn in memo:
            return memo[qn]
        memo[qn] = []
        r = recs.get(qn)
        out = []
        if r is not None and depth < 5 and not r.get("user_ctor"):
            for fd in r.get("fields") or []:
                if "init" in fd:
                    continue
                t = fd.get("t", "")
                if scalar(t):
                    out.append(fd["name"])
                elif t.replace("const ", "") in recs:
                    out += ["%s.%s" % (fd["name"], x) for x in uninit_fields(t.replace("const ", ""), depth + 1)]
        memo[qn] = out
        return out
    n = 0
    for fn in gen.sbeppc_functions(f):
        sf = gguard.short_fn(fn)
        for x in walk(fn["body"]):
            if x.get("k") != "VarDecl" or x.get("static") or x.get("parm"):
                continue
            t = (x.get("t") or "")
            if "&" in t:
                continue
            t0 = t.replace("const ", "").strip()
            init = x.get("init")
            where = "%s:%s" % (rel(fn["file"]), x.get("l"))
            if t0 in recs and uninit_fields(t0):
                n += 1
                ik = (init or {}).get("k")
                c = (init or {}).get("callee") or {}
                default_init = init is None or (ik == "CXXConstructExpr" and c.get("defctor") and c.get("defaulted") and not (init.get("args") or [])
                                                and not init.get("list") and not init.get("zeroing"))
                key = "init:%s:%s" % (sf, x.get("name"))
                never = []
                if default_init:
                    # members the function never stores to (flow-insensitive: a member that is assigned somewhere may still be
                    # assigned on every path - that is not decided here, and not reported)
                    stored = set()
                    did = x.get("did")
                    for y in walk(fn["body"]):
                        tgt = None
                        if y.get("k") in ("BinaryOperator", "CompoundAssignOperator") and y.get("op", "").endswith("=") and y.get("op") not in ("==", "!=", "<=", ">="):
                            tgt = y.get("lhs")
                        elif y.get("k") == "CXXOperatorCallExpr" and (y.get("callee") or {}).get("name") == "operator=":
                            tgt = y.get("obj") if y.get("obj") is not None else (y.get("args") or [None])[0]
                        if tgt is None:
                            continue
                        path = []
                        cur = gen.strip(tgt)
                        while cur is not None and cur.get("k") == "MemberExpr":
                            path.insert(0, cur.get("name"))
                            cur = gen.strip(cur.get("base"))
                        if cur is not None and cur.get("k") == "DeclRefExpr" and cur.get("did") == did and path:
                            stored.add(".".join(path))
                    for m in uninit_fields(t0):
                        if not any(m == s_ or m.startswith(s_ + ".") for s_ in stored):
                            never.append(m)
                if default_init and never:
                    chk.violation("G-INIT", key, where,
                                  "`%s %s;` in %s is default-initialised and its members %s (no default member initialiser) are "
                                  "never assigned in the function: they hold indeterminate values when the object is handed on, "
                                  "and what the validators and generators make of them differs from run to run"
                                  % (t0.split("::")[-1], x.get("name"), sf, never[:6]))
                elif default_init:
                    chk.notes.append("G-INIT: %s %s in %s is default-initialised; every scalar member is assigned somewhere in the "
                                     "function (all-paths assignment not decided)" % (t0, x.get("name"), sf))
                    chk.ok("G-INIT", key, {"where": where, "type": t0, "initialiser": "default; members assigned"})
                else:
                    chk.ok("G-INIT", key, {"where": where, "type": t0, "initialiser": ik}, nontrivial=True)
            elif scalar(t0) and x.get("name"):
                n += 1
                key = "init:%s:%s" % (sf, x.get("name"))
                if init is None and not x.get("cond_var"):
                    # assigned later, perhaps on every path: not decided here
                    chk.notes.append("G-INIT: scalar local %s %s in %s has no initialiser (definite assignment not decided)" % (t0, x.get("name"), sf))
                    chk.ok("G-INIT", key + "#%s" % x.get("l"), {"where": where, "type": t0, "initialiser": None})
                else:
                    chk.ok("G-INIT", key + "#%s" % x.get("l"), {"where": where, "type": t0})
    chk.floor("G-INIT locals", n, 40)
    return n

#!/usr/bin/env python3
"""Regenerates /verif/MANIFEST.json from the table below (kept next to the
checks so the two cannot drift)."""
import json
import os
import sys

HERE = os.path.dirname(os.path.abspath(__file__))
VERIF = os.path.dirname(HERE)

CLAIMED = {
    "C16": {
        "category": "other",
        "text": ("Static sibling-table rule (G-TAB): every row of the generator's default min/max/null tables is "
                 "compared with the sbepp built-in constant of the same primitive through compile-time witnesses "
                 "over the two constants, in the brace context the generated code uses; key sets and wrapper rows of "
                 "all per-primitive tables. Decides the 'SBE defaults' clause for all schemas (the tables are the only "
                 "source of defaults)."),
        "design_ref": "DESIGN.md 2.4 G-TAB, 3/C16",
        "note": ("Trusted: clang's type checker/constant folder for the witness TU, the fact extractor. Not decided: "
                 "comparison results on concrete value pairs."),
        "technique": "custom AST table extraction + static_assert compile witnesses over constants",
    },
}

PENDING = {
}

NOT_APPLICABLE = {
}


def main():
    props = [json.loads(l) for l in open(os.path.join(VERIF, "properties.jsonl"))]
    ids = [p["id"] for p in props]
    checks = []
    for pid in ids:
        if pid not in CLAIMED:
            continue
        c = CLAIMED[pid]
        checks.append({
            "property_id": pid,
            "quick_cmd": "python3 sa/run.py %s --tier quick" % pid,
            "thorough_cmd": "python3 sa/run.py %s --tier thorough" % pid,
            "evidence_file": "/verif/evidence/%s.json" % pid,
            "replay_cmd_template": "python3 sa/run.py %s --replay {path}" % pid,
            "engine": "sa",
            "level_claimed": {"category": c["category"], "text": c["text"], "design_ref": c["design_ref"]},
            "level_note": c["note"],
            "technique": c["technique"],
        })
    na = []
    for pid in ids:
        if pid in CLAIMED:
            continue
        reason = NOT_APPLICABLE.get(pid) or PENDING.get(pid) or \
            "static check for this property is still under construction in this tree (see DESIGN.md section 8); nothing is claimed yet"
        na.append({"property_id": pid, "reason": reason})
    m = {
        "version": 1,
        "setup_cmd": "python3 sa/setup.py",
        "hooks": {
            "guard": "SBEPP_VERIF",
            "enable": "no hooks: the analysers read /repo as it is (no instrumentation commits)",
            "baseline_off_cmd": "cmake --build /repo/_build && ctest --test-dir /repo/_build -j8 --timeout 900",
            "source_commits": [],
            "add_only": True,
        },
        "engines": [
            {"name": "sa", "path": "sa/run.py", "serves_properties": sorted(CLAIMED),
             "kind_free_text": ("static analysis: libTooling fact extractor (tool/sbepp-facts.cc) over clang's "
                                "type-checked AST of sbepp.hpp instantiations, the sbeppc TU and generated headers; "
                                "python rule engines (sa/*.py); compile-time witnesses")},
        ],
        "checks": checks,
        "not_applicable": na,
        "notes": ("Exit codes: 0 held, 1 VIOLATION, 2 analysis broken (anchor vanished / floor not met). "
                  "known_findings.json lists genuine defects (known / fixed)."),
    }
    json.dump(m, open(os.path.join(VERIF, "MANIFEST.json"), "w"), indent=1)
    print("MANIFEST.json: %d checks, %d not_applicable" % (len(checks), len(na)))


if __name__ == "__main__":
    main()

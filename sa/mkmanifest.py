#!/usr/bin/env python3
"""Regenerates /verif/MANIFEST.json from the table below (kept next to the
checks so the two cannot drift)."""
import json
import os
import sys

HERE = os.path.dirname(os.path.abspath(__file__))
VERIF = os.path.dirname(HERE)

def E(cat, text, ref, note, tech):
    return {"category": cat, "text": text, "design_ref": ref, "note": note, "technique": tech}


TB = ("Trusted: clang 14 front end (AST, constant folding), the libTooling fact extractor, the E2 transfer functions and the "
      "std-algorithm summaries, the hand-written spec tables; host is little-endian x86-64 with libstdc++. ")

CLAIMED = {
    "C01": E("other", "Decides the structural clauses of the wire-image property for all inputs: codec byte order/width of every "
             "set_primitive instantiation (both build paths), exact write footprint of setters, the validator's layout recurrence "
             "(members never overlap, blockLength >= content), and - for the 24 schemas of build set + corpus - offset/width/byte "
             "order of every generated accessor against an independent XML model. Set choice setters: shift rule and mask rows. Whole encode scripts are not decided.",
             "DESIGN.md 3/C01", TB + "Composition over run-time group counts / data lengths is not covered.",
             "affine/effect dataflow on typed AST (E2) + translation validation of generated headers (E4) + guard/effect table (G-GUARD)"),
    "C02": E("other", "Decides the decoder-side codec clause (one READ of sizeof(T), result = those bytes reversed iff byte orders "
             "differ, no arithmetic on the value) for every instantiation under C++11/17/20 paths, get_value's check/read width "
             "agreement, constexpr reachability under C++20, and per generated getter of the corpus the model's offset/width/order; set choice getters (shift rule, mask rows); value()/operator* of the wrappers return the stored representation; group size and entry address arithmetic (rows + R-INT).",
             "DESIGN.md 3/C02", TB + "Value equality on concrete images and FP register effects are not decided.",
             "affine/effect dataflow (E2) against the SBE encoding table + E4"),
    "C03": E("other", "Every level-end, stride and entry address in the library is an affine form over *wire* blockLength/numInGroup "
             "symbols (never a compile-time constant); in the generator the compiled block length reaches only header fillers and "
             "block_length() traits; the checking visitor charges each entry the wire blockLength of the group being traversed (state rows).", "DESIGN.md 3/C03", TB, "affine spec rows over E2 summaries + who-may-read def-use rule (G-FLOW c) + E4 cursor-primitive rule on generated accessors"),
    "C04": E("other", "The 48-row cursor protocol table (5 kinds x 10 primitives) is compared, as equalities of affine normal forms, "
             "with every instantiation: access address, value, cursor-after, wrong-cursor assertion present/absent, size check on "
             "the accessed base; cursor_range / cursor_subrange rows in the checked and the unchecked configuration. Call-sequence product space not explored.", "DESIGN.md 3/C04", TB,
             "spec table vs path-sensitive affine summaries (E2); E4 for generated cursor offsets"),
    "C05": E("other", "R-INT proves every size computation is carried out in 64 bits or cannot overflow for any header value; "
             "size rows (flat = H + N*BL, cursor size = c - begin); generated size_bytes(...) traits equal the model's polynomial "
             "with the documented parameter list.", "DESIGN.md 3/C05", TB + "Numeric equality on concrete messages not decided.",
             "interval arithmetic over C++ conversion rules (R-INT) + E2 rows + E4 polynomial comparison"),
    "C06": E("other", "Read-before-validate over all E2 paths of size_bytes_checked for the corpus messages (no-assert configuration), "
             "exactness on loop-free valid paths, rows of validate_and_subtract and of the visitor callbacks, inductive state rows for the visitor's group_block_length (set / restored / single writer), structural work bound.",
             "DESIGN.md 3/C06", TB + "Reads inside entry loops are undecided (counted); 'valid exactly when' over all buffers not decided. "
             "Known findings D10 (replayed with ASan).", "path-sensitive affine/effect dataflow with accounting facts (read-before-validate)"),
    "C07": E("other", "Rule families over the generator for all schemas (template binding, free text into literals, literal tables, "
             "keyword table, name capture incl. namespace-scope capture of std, declared-presence who-may-read rule, per-arm escape discipline) plus standalone compilation of every generated header and a model-generated "
             "touch-everything TU for 24 schemas.", "DESIGN.md 3/C07",
             "Compilability of schemas outside the corpus beyond the rule families is not decided.",
             "template lint + def-use taint on AST facts, compile witnesses"),
    "C08": E("other", "Each of the 65 throw sites is dominated by exactly its hand-confirmed guard (strictness included); traversal "
             "reaches every position; memo caches belong to one validator (G-CACHE); required-rule table (G-REQ: known gaps D13/D15/D17); classifying predicates scan their whole argument (G-SCAN); the type table is written only by the duplicate-reporting adder (G-UNIQ); exit status mapping; the 24 valid boundary schemas are accepted.", "DESIGN.md 3/C08",
             "Acceptance of every rule-abiding schema in general is not decided.",
             "structural dominance + normalised guard table (G-GUARD), call-graph requirements (G-CALL), cache-exclusivity shape rule (G-CACHE)"),
    "C09": E("other", "Every enumerated hazard call site has a dominating guard or a recorded invariant linked to a live validator "
             "check, to a value-exclusion rule on the helper that establishes it or to the dispatch of its callers; context_manager::get inside the validator is a hazard site; the offset guards the generator re-checks are evaluated as linked instances; format strings are literals with bound fields; main covers std::exception; include recursion rule.", "DESIGN.md 3/C09", "UB in general, pugixml internals, memory exhaustion, other hang shapes not decided.",
             "hazard enumeration with resolved callees + guard-or-invariant rule (G-HAZ), template lint (G-TPL), cache-exclusivity shape rule (G-CACHE)"),
    "C10": E("other", "On every path of every public operation each buffer access is preceded by an asserted bound that covers exactly "
             "the accessed bytes on the accessed base (R-CHK); a data-dependent move of a view's own ptr is covered by an asserted ptr' <= end (R-CHK.step); every view handed out inherits the end pointer of the view it was derived from (R-CHK.derive); the validator guard that keeps array elements one byte wide is a linked instance; configuration truth table of SBEPP_SIZE_CHECKS_ENABLED.",
             "DESIGN.md 3/C10", TB + "Operation sequences follow operation-by-operation only.",
             "path-sensitive affine/effect dataflow with dominance + linear implication (R-CHK)"),
    "C11": E("proof", "Type checker as prover: generated negative witnesses for every mutating call form of every entity, conversion "
             "witnesses, cv-qualifier witnesses for the array references (const / volatile / const volatile bytes), cursor setters with a mutable cursor on a const view, the positive witness TU (read-only use with const bytes and const cursors compiles) and the no-const-removing-cast rule over all instantiations.", "DESIGN.md 3/C11",
             "Trusted: clang/g++ type checkers, cast enumeration by the extractor, completeness of the XML-model enumeration (cross-checked by E4).",
             "compile-fail witnesses + AST cast rule"),
    "C12": E("other", "Affine rows for group bases / iterators / cursor ranges for all 16 dimension pairs (laws hold as algebra over "
             "the rows) plus R-INT on every pointer-offset computation and difference_type conversion.", "DESIGN.md 3/C12",
             TB, "spec rows over E2 summaries + interval arithmetic (R-INT)"),
    "C13": E("other", "Only per-operation clauses are decided (the vector-model equivalence over operation sequences is a property of "
             "histories, not applicable to this family): exact write footprint, new length, returned iterator and precondition "
             "strictness of every <data> mutator for all length types / byte orders / element types of the corpus; single-pass ranges are traversed once; value parameters are not read after shifting (ARR.alias); linked validator guard (one-byte elements).",
             "DESIGN.md 3/C13", TB + "Sequences of operations are not explored.", "spec rows over path-sensitive affine/effect summaries (E2)"),
    "C14": E("other", "Exact write footprints, padding per eos mode, returned iterators, precondition strictness, strlen/strlen_r scan "
             "ranges for every array length of the corpus (incl. 0 and 1); single-pass ranges are traversed once; no unbounded scan of the array's own storage in any arm, sized arguments keep their size (ARR.bounded).", "DESIGN.md 3/C14",
             TB + "Contents for all inputs follow from the trusted std-algorithm summaries.", "spec rows over E2 summaries"),
    "C15": E("other", "Shift rule (operand at least as wide as T, unsigned at T's width), mask algebra rows of get_bit/set_bit, "
             "generated choice accessors pass the XML index; visit_set reports each choice through its own getter.", "DESIGN.md 3/C15", TB, "R-INT shift rule + E2 mask rows + E4"),
    "C16": E("other", "Generator default min/max/null tables equal the library constants (compile witnesses over constants); "
             "comparison operators as truth tables over the skeleton atoms; NaN-null rule; value()/value_or rows.", "DESIGN.md 3/C16",
             "Results on concrete value pairs beyond the truth tables are not decided.",
             "sibling-table rule with static_assert witnesses + propositional truth tables of operator skeletons"),
    "C17": E("translation_validation", "For every message/group of 24 schemas the filler's write set equals the XML model's header "
             "fields/values; sibling rule on header-member lookups.", "DESIGN.md 3/C17", "Scope: build set + corpus schemas.",
             "E2 summaries of generated fillers vs independent XML model"),
    "C18": E("translation_validation", "Every trait of every entity of 24 schemas equals the XML model; tag predicates and traits_tag "
             "round trips by type-level witnesses; actual-presence rules per kind of encoding (value exclusion) and the declared-presence who-may-read rule; free text reaches literals through an exact escaper; min/max/null limits equal the XML attribute or the SBE default (generated code and generator tables).", "DESIGN.md 3/C18", "Scope: build set + corpus schemas.",
             "AST extraction of trait specialisations vs independent XML model + static_assert witnesses"),
    "C19": E("translation_validation", "Generated visit_children bodies are ||-chains of exactly the members in schema order with own "
             "accessor and tag; enum/set visits; library early-stop loop; by-tag forwarding; which members are visited follows actual_presence in every generator (G-FLOW.f, G-PRES); by-tag accessors take their arguments by forwarding reference (E4.bytag).", "DESIGN.md 3/C19",
             "Event logs on concrete messages for every stopping point are not explored (short-circuit || is the language's).",
             "AST structure rules on generated code vs XML model"),
    "C20": E("other", "Must-check rules on fs_provider (open test, flush/close, state test with throwing arm), who-may-touch-disk, "
             "every error_code is tested before it is reused (G-IO.ec), counting writes use their result, exit status mapping, determinism rules (API, pointer-keyed iteration, address-dependent values, never-assigned members of default-initialised parse structs).", "DESIGN.md 3/C20",
             "Individual failing syscalls and byte identity of real runs are not decided.",
             "must-check / who-may-call rules on resolved call sites"),
}

PENDING = {
}

NOT_APPLICABLE = {
}


def main():
    props = [json.loads(l) for l in open(os.path.join(VERIF, "properties.jsonl"))]
    ids = [p["id"] for p in props]
    checks = []
    for pid in ids:
        if pid not in CLAIMED:
            continue
        c = CLAIMED[pid]
        checks.append({
            "property_id": pid,
            "quick_cmd": "python3 sa/run.py %s --tier quick" % pid,
            "thorough_cmd": "python3 sa/run.py %s --tier thorough" % pid,
            "evidence_file": "/verif/evidence/%s.json" % pid,
            "replay_cmd_template": "python3 sa/run.py %s --replay {path}" % pid,
            "engine": "sa",
            "level_claimed": {"category": c["category"], "text": c["text"], "design_ref": c["design_ref"]},
            "level_note": c["note"],
            "technique": c["technique"],
        })
    na = []
    for pid in ids:
        if pid in CLAIMED:
            continue
        reason = NOT_APPLICABLE.get(pid) or PENDING.get(pid) or \
            "static check for this property is still under construction in this tree (see DESIGN.md section 8); nothing is claimed yet"
        na.append({"property_id": pid, "reason": reason})
    m = {
        "version": 1,
        "setup_cmd": "python3 sa/setup.py",
        "hooks": {
            "guard": "SBEPP_VERIF",
            "enable": "no hooks: the analysers read /repo as it is (no instrumentation commits)",
            "baseline_off_cmd": "cmake --build /repo/_build && ctest --test-dir /repo/_build -j8 --timeout 900",
            "source_commits": [],
            "add_only": True,
        },
        "engines": [
            {"name": "sa", "path": "sa/run.py", "serves_properties": sorted(CLAIMED),
             "kind_free_text": ("static analysis: libTooling fact extractor (tool/sbepp-facts.cc) over clang's "
                                "type-checked AST of sbepp.hpp instantiations, the sbeppc TU and generated headers; "
                                "python rule engines (sa/*.py); compile-time witnesses")},
        ],
        "checks": checks,
        "not_applicable": na,
        "notes": ("Exit codes: 0 held, 1 VIOLATION, 2 analysis broken (anchor vanished / floor not met). "
                  "known_findings.json lists genuine defects (known / fixed)."),
    }
    json.dump(m, open(os.path.join(VERIF, "MANIFEST.json"), "w"), indent=1)
    print("MANIFEST.json: %d checks, %d not_applicable" % (len(checks), len(na)))


if __name__ == "__main__":
    main()

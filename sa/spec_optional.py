"""Truth tables of optional/required scalar semantics (C16).

Atoms: L = lhs has a value, R = rhs has a value, and the underlying comparison
of the raw values.  For every path of every comparison operator instantiation
(E2), under each (L, R) assignment consistent with the path's branch decisions
the returned expression must be the documented one: null equals only null and
orders before every value; otherwise the raw values compare.
"""
from common import *
import rint
from symex import *
from libsum import *

SPEC = {
    # op: function (L, R) -> constant 0/1 or None meaning "the raw comparison op"
    "<": lambda L, R: (1 if (not L and R) else 0) if not (L and R) else None,
    "<=": lambda L, R: (1 if (not L) else 0) if not (L and R) else None,
    ">": lambda L, R: (1 if (L and not R) else 0) if not (L and R) else None,
    ">=": lambda L, R: (1 if (not R) else 0) if not (L and R) else None,
}


def tcmp(T, op, a, b):
    """the comparison term of the value type: IEEE comparison for float/double, integer otherwise"""
    if rint.clean(T) in ("float", "double"):
        return fcmp_term(op, a, b)
    return cmp_term(op, a, b)


def is_fp(T):
    return rint.clean(T) in ("float", "double")


def is_nan(v):
    return isinstance(v, Lin) and any(a[0] == "call" and "quiet_NaN" in str(a[1]) for a in v.atoms())


def null_of(lib, D):
    f = lib.method(D, "null_value", nparams=0)
    if f is None:
        return None
    return lib.summary(f).live[0].ret


def decision(path, term):
    """was `term` decided on the path (True / False), or not at all (None)?"""
    term = lin(term)
    if term.is_const():
        return bool(term.k)
    neg = negate_cond(term)
    for c, taken in path.pc:
        c = lin(c)
        if c == term:
            return taken
        if c == neg:
            return not taken
    return None


def presence(path, who, T, nullv):
    """documented presence of the operand on this path: has a value iff the raw value is not the null value, where a
    NaN null value is matched by any NaN (NaN never equals itself).  None = the path does not depend on it."""
    v = sym(who + ".val")
    e = decision(path, tcmp(T, "==", v, nullv))
    if e is True:
        return False
    if e is None:
        return None
    if not is_fp(T):
        return True
    n1 = decision(path, fcmp_term("!=", v, v))
    if is_nan(nullv):
        n2 = True          # NaN != NaN (the compiler folds this constant expression)
    else:
        n2 = decision(path, fcmp_term("!=", nullv, nullv))
    if n1 is False or n2 is False:
        return True
    if n1 is True and n2 is True:
        return False
    return None


def null_atoms(path, who, T=None, nullv=None):
    p = presence(path, who, T, nullv)
    return [] if p is None else [p]


def td_of(param_t):
    inner = param_t.split("optional_base<")[1]
    T = inner.split(",")[0].strip()
    D = inner.split(",", 1)[1].strip()
    D = D[:D.rindex(">")].strip() if ">" in D else D
    return T, D


def check(chk, lib):
    n = 0
    for op in ("<", "<=", ">", ">="):
        for f in lib.by_name.get(("", "operator" + op), []):
            ps = f.get("params") or []
            if len(ps) != 2 or "optional_base" not in ps[0]["t"]:
                continue
            T, D = td_of(ps[0]["t"])
            nullv = null_of(lib, D)
            if nullv is None:
                chk.broke("null_value of %s not found" % D)
                continue
            key = "opt%s<%s>" % (op, T)
            try:
                s = lib.summary(f)
            except AnalysisBroken as e:
                chk.broke("optional operator%s: %s" % (op, e))
                continue
            errs = []
            for p in s.live:
                Ls, Rs = null_atoms(p, "lhs", T, nullv), null_atoms(p, "rhs", T, nullv)
                for L in (True, False):
                    for R in (True, False):
                        if any(x != L for x in Ls) or any(x != R for x in Rs):
                            continue
                        want = SPEC[op](L, R)
                        got = p.ret
                        if want is None:
                            w = tcmp(T, op, sym("lhs.val"), sym("rhs.val"))
                            if got is None or lin(got) != w:
                                errs.append("L=%s R=%s: returns %s, expected the raw comparison %s" % (L, R, show(got), show(w)))
                        else:
                            g = lin(got) if got is not None else None
                            if g is None or not g.is_const() or g.k != want:
                                # a non-constant return is acceptable only if the path did not decide L/R
                                # such that the documented value is forced
                                errs.append("lhs %s, rhs %s: returns %s, documented result is %s"
                                            % ("has value" if L else "null", "has value" if R else "null", show(got), bool(want)))
            n += 1
            if errs:
                chk.violation("OPT.order", "operator" + op, where(f), "optional operator%s on %s [%s]: %s" % (op, T, lib.label, "; ".join(sorted(set(errs))[:3])))
            else:
                chk.ok("OPT.order", key + "@" + lib.label.split()[1], {"function": f["qn"][:100], "paths": len(s.live)})
    for op in ("==", "!="):
        for f in lib.by_name.get(("", "operator" + op), []):
            ps = f.get("params") or []
            if len(ps) != 2 or not ("optional_base" in ps[0]["t"] or "required_base" in ps[0]["t"]):
                continue
            s = lib.summary(f)
            T = ps[0]["t"].split("_base<")[1].split(",")[0]
            w = tcmp(T, op, sym("lhs.val"), sym("rhs.val"))
            n += 1
            if "required_base" in ps[0]["t"]:
                p = s.live[0]
                if len(s.live) != 1 or p.ret is None or lin(p.ret) != w:
                    chk.violation("OPT.eq", "operator" + op, where(f), "operator%s on %s returns %s, expected raw value comparison %s"
                                  % (op, ps[0]["t"][:60], show(p.ret), show(w)))
                else:
                    chk.ok("OPT.eq", "eq%s<%s>@%s" % (op, T, lib.label.split()[1]), {"function": f["qn"][:100]})
                continue
            # optional: values are compared only when both are present; otherwise equal iff both are null
            T, D = td_of(ps[0]["t"])
            nullv = null_of(lib, D)
            if nullv is None:
                chk.broke("null_value of %s not found" % D)
                continue
            errs = []
            for p in s.live:
                Ls, Rs = null_atoms(p, "lhs", T, nullv), null_atoms(p, "rhs", T, nullv)
                g = lin(p.ret) if p.ret is not None else None
                if not Ls and not Rs and g == w and not is_nan(nullv):
                    # comparing the raw values is the documented rule when null is one ordinary value: both null =>
                    # equal raw values, exactly one null => different raw values
                    continue
                for L in (True, False):
                    for R in (True, False):
                        if any(x != L for x in Ls) or any(x != R for x in Rs):
                            continue
                        if L and R:
                            if g != w:
                                errs.append("both present: returns %s, expected %s" % (show(g) if g is not None else None, show(w)))
                        else:
                            want = (L == R) if op == "==" else (L != R)
                            if g is None or not g.is_const() or bool(g.k) != want:
                                errs.append("lhs %s, rhs %s: returns %s, documented result is %s"
                                            % ("has value" if L else "null", "has value" if R else "null", show(g) if g is not None else None, want))
            if errs:
                chk.violation("OPT.eq", "operator" + op, where(f), "optional operator%s on %s [%s]: %s" % (op, T, lib.label, "; ".join(sorted(set(errs))[:3])))
            else:
                chk.ok("OPT.eq", "eq%s<%s>@%s" % (op, D.split("::")[-1], lib.label.split()[1]), {"function": f["qn"][:100], "paths": len(s.live)})
    # has_value / operator bool / value_or / in_range / default construction
    tpl = "sbepp::detail::optional_base"
    for f in lib.fns(tpl, "has_value"):
        T = (f.get("cls_targs") or ["?"])[0]
        D = (f.get("cls_targs") or ["?", "?"])[1]
        n += 1
        nv = null_of(lib, D)
        key = "has_value<%s>" % D.split("::")[-1]
        if nv is None:
            chk.broke("null_value of %s not found" % D)
            continue
        nan_null = any(a[0] == "call" and "quiet_NaN" in str(a[1]) for a in lin(nv).atoms()) if isinstance(nv, Lin) else False
        errs = []
        undecided_nan = False
        for p in lib.summary(f).live:
            pr = presence(p, "this", T, nv)
            g = lin(p.ret) if p.ret is not None else None
            if pr is None:
                # the path returns a comparison itself instead of branching on it
                want = tcmp(T, "!=", sym("this.val"), nv)
                if g != want:
                    errs.append("returns %s, expected val != null_value() = %s" % (show(g) if g is not None else None, show(want)))
                elif is_fp(T) and nan_null:
                    undecided_nan = True
            elif g is None or not g.is_const() or bool(g.k) != pr:
                errs.append("value is %s: returns %s" % ("present" if pr else "null", show(g) if g is not None else None))
        if errs:
            chk.violation("OPT.null", "has_value", where(f), "has_value() of %s: %s" % (D, "; ".join(sorted(set(errs))[:3])))
        elif undecided_nan:
            chk.violation("OPT.null", "has_value:nan", where(f),
                          "has_value() of %s compares with `!=` against a NaN null value: NaN != NaN, so a default-constructed / "
                          "nullopt optional<%s> is never null and null == null is false" % (D, T))
        else:
            chk.ok("OPT.null", key, {"null_value": show(nv), "nan_null": nan_null})
    for f in lib.fns(tpl, "value_or"):
        n += 1
        s = lib.summary(f)
        errs = []
        T_ = (f.get("cls_targs") or ["?"])[0]
        nv_ = null_of(lib, (f.get("cls_targs") or ["?", "?"])[1])
        for p in s.live:
            hv = null_atoms(p, "this", T_, nv_)
            if not hv:
                errs.append("value_or does not branch on has_value")
                continue
            want = sym("this.val") if hv[0] else sym("default_value")
            if p.ret is None or lin(p.ret) != want:
                errs.append("%s: returns %s" % ("has value" if hv[0] else "null", show(p.ret)))
        D = (f.get("cls_targs") or ["?", "?"])[1]
        if errs:
            chk.violation("OPT.value_or", "value_or", where(f), "value_or of %s: %s" % (D, "; ".join(errs)))
        else:
            chk.ok("OPT.value_or", "value_or<%s>" % D.split("::")[-1], {"paths": len(s.live)})
    # value() / operator* hand out the stored representation unchanged - also for a null optional (the documented
    # "returns underlying value"): the bits read from the buffer are what the caller gets (NaN payloads, -0.0)
    for tp in ("sbepp::detail::optional_base", "sbepp::detail::required_base"):
        for nm in ("value", "operator*"):
            for f in lib.fns(tp, nm):
                if f.get("params"):
                    continue
                n += 1
                D = (f.get("cls_targs") or ["?", "?"])[1]
                errs = []
                for p in lib.summary(f).live:
                    r = p.ret
                    if isinstance(r, Loc):
                        # non-const overload: a reference to the member itself
                        if r.key != "val":
                            errs.append("returns a reference to member %s" % r.key)
                    elif r is None or isinstance(r, (MemLoc, Obj)) or lin(r) != sym("this.val"):
                        errs.append("returns %s" % (show(r) if isinstance(r, Lin) else type(r).__name__))
                    if [e for e in p.events if e[0] in ("write",)]:
                        errs.append("writes")
                if errs:
                    chk.violation("OPT.value", "%s.%s" % (tp.split("::")[-1], nm), where(f),
                                  "%s() of %s must return the stored value unchanged on every path: %s" % (nm, D, "; ".join(sorted(set(errs))[:3])))
                else:
                    chk.ok("OPT.value", "%s<%s>" % (nm, D.split("::")[-1]), {"returns": "this.val"})
    for tp in ("sbepp::detail::optional_base", "sbepp::detail::required_base"):
        for f in lib.fns(tp, "in_range"):
            n += 1
            D = (f.get("cls_targs") or ["?", "?"])[1]
            T = (f.get("cls_targs") or ["?"])[0]
            s = lib.summary(f)
            mn = lib.method(D, "min_value", nparams=0)
            mx = lib.method(D, "max_value", nparams=0)
            if mn is None or mx is None:
                continue
            lo = lib.summary(mn).live[0].ret
            hi = lib.summary(mx).live[0].ret
            # truth table: under every assignment of A = (min <= val), B = (val <= max) consistent with the path's
            # decisions the result is A && B
            cA = tcmp(T, "<=", lo, sym("this.val"))
            cB = tcmp(T, "<=", sym("this.val"), hi)
            okp = True
            for p in s.live:
                dec = {}
                for c, t in p.pc:
                    c = lin(c)
                    if c == cA:
                        dec["A"] = t
                    elif c == cB:
                        dec["B"] = t
                    else:
                        okp = False          # branches on something else
                g = lin(p.ret) if p.ret is not None else None
                for A in (True, False):
                    for B in (True, False):
                        if dec.get("A", A) != A or dec.get("B", B) != B:
                            continue
                        if g is None:
                            okp = False
                        elif g.is_const():
                            val = bool(g.k)
                            if val != (A and B):
                                okp = False
                        elif g == cA:
                            if A != (A and B):
                                okp = False
                        elif g == cB:
                            if B != (A and B):
                                okp = False
                        else:
                            okp = False
            if not okp:
                chk.violation("OPT.in_range", "in_range", where(f), "in_range of %s is not (min <= val) && (val <= max)" % D)
            else:
                chk.ok("OPT.in_range", "in_range<%s>" % D.split("::")[-1], {"min": show(lo), "max": show(hi)})
    return n


def check_threeway(chk, lib):
    """C++20: operator<=> of optional_base: values compare when both are present,
    otherwise presence flags compare (null orders before every value)"""
    n = 0
    for f in lib.by_name.get(("", "operator<=>"), []):
        ps = f.get("params") or []
        if len(ps) != 2 or "optional_base" not in ps[0]["t"]:
            continue
        T, D = td_of(ps[0]["t"])
        if null_of(lib, D) is None:
            chk.broke("null_value of %s not found" % D)
            continue
        try:
            s = lib.summary(f)
        except AnalysisBroken as e:
            chk.broke("operator<=>: %s" % e)
            continue
        n += 1
        errs = []
        nullv = null_of(lib, D)
        for p in s.live:
            Ls, Rs = null_atoms(p, "lhs", T, nullv), null_atoms(p, "rhs", T, nullv)
            both = Ls and Rs and all(Ls) and all(Rs)
            got = p.ret
            g = lin(got) if isinstance(got, Lin) else None
            atom = g.terms[0][0] if (g is not None and len(g.terms) == 1) else None
            if atom is None or atom[0] != "spaceship":
                # class-typed result (std::strong_ordering object built by an external call)
                ev = [e for e in p.events if e[0] == "extcall"]
                if not ev:
                    errs.append("path returns %s" % show(got))
                continue
            a, b = atom[1], atom[2]
            if both:
                if a != sym("lhs.val") or b != sym("rhs.val"):
                    errs.append("both present: compares %s with %s, expected the raw values" % (show(a), show(b)))
            else:
                if not (("cmp" in str(a.terms[0][0][0]) if a.terms else a.is_const()) or a.is_const()):
                    errs.append("a null operand: compares %s with %s, expected the presence flags" % (show(a), show(b)))
        ret_t = rint.clean(f.get("ret", ""))
        is_fp = rint.clean(T) in ("float", "double")
        if is_fp and "partial_ordering" not in ret_t:
            errs.append("returns %s for a floating-point value type (must admit partial_ordering)" % ret_t)
        if not is_fp and "strong_ordering" not in ret_t:
            errs.append("returns %s for an integral value type, expected std::strong_ordering" % ret_t)
        if errs:
            chk.violation("OPT.threeway", "operator<=>", where(f), "optional operator<=> on %s [%s]: %s" % (T, lib.label, "; ".join(errs[:3])))
        else:
            chk.ok("OPT.threeway", "<=>%s" % D.split("::")[-1], {"returns": ret_t, "paths": len(s.live)})
    return n

"""Spec rows for group views, entries, iterators, cursor ranges and message
bases (C12, C03, C05).  Expected forms are written from doc/ and the SBE wire
format: entry i of a flat group starts at  A + H + i*BL  where H is the
dimension size and BL / N are the *wire* blockLength / numInGroup; iterators
compare and subtract by index; resize/clear write only numInGroup.
"""
import re
from common import *
import rint
from symex import *
from libsum import *
from spec_cursor import subst


def fld(o, name):
    v = o.get(name) if isinstance(o, Obj) else None
    return v


def scalar_of(v):
    """value carried by a required/optional wrapper object or a plain scalar"""
    if isinstance(v, Obj):
        if "val" in v.fields:
            return lin(v.fields["val"])
        if "bits" in v.fields:
            return lin(v.fields["bits"])
        raise AnalysisBroken("no scalar in %s" % show(v))
    return lin(v)


def dim_info(lib, dim_cls, cache={}):
    key = (id(lib), dim_cls)
    if key in cache:
        return cache[key]
    this = Obj(rint.clean(dim_cls), "this", symbolic=True)
    H, _ = lib.tag_call(dim_cls, "size_bytes_tag", "this")
    out = {"H": lin(H)}
    for nm in ("numInGroup", "blockLength"):
        f = lib.method(dim_cls, nm, nparams=0)
        if f is None:
            raise AnalysisBroken("dimension %s has no getter %s" % (dim_cls, nm))
        ps = lib.eng.summarise(f, this_obj=this)
        live = [p for p in ps if not p.aborted]
        if len(live) != 1:
            raise AnalysisBroken("dimension getter %s: %d paths" % (nm, len(live)))
        out[nm] = scalar_of(live[0].ret)
    cache[key] = out
    return out


def single(lib, fn, **kw):
    s = lib.summary(fn, **kw)
    live = s.live
    if len(live) != 1:
        raise AnalysisBroken("%d live paths" % len(live))
    return live[0]


class Rows:
    def __init__(self, chk, lib, rule):
        self.chk, self.lib, self.rule = chk, lib, rule
        self.count = {}

    def cmp(self, fn, row, got, want, what):
        g, w = (lin(got) if got is not None else None), lin(want)
        if g is None or g != w:
            return "%s = %s, expected %s" % (what, show(g) if g is not None else None, show(w))
        return None

    def done(self, fn, row, errs, sample=None):
        key = "%s|%s" % (row, "/".join(str(x) for x in (fn.get("cls_targs") or [])[1:])[-90:])
        self.count[row] = self.count.get(row, 0) + 1
        errs = [e for e in errs if e]
        if "no-asserts" in self.lib.label:
            # configuration without size checks: views carry no `end` and nothing is asserted; the geometry
            # clauses of the rows are the same (the two configurations are separate #if / #else code)
            kept = []
            for e in errs:
                parts = [x for x in e.split("; ") if not re.search(r"\.end = |end_ptr|must assert|SIZE_CHECK|asserted|must check|precondition", x)]
                if parts:
                    kept.append("; ".join(parts))
            errs = kept
        if errs:
            self.chk.violation(self.rule, row, where(fn), "row %s, instantiation %s [%s]: %s"
                               % (row, fn["qn"][:180], self.lib.label, "; ".join(errs)))
        else:
            self.chk.ok(self.rule, key, {"row": row, "function": fn["qn"][:140], **(sample or {})})


def no_writes(p):
    w = writes(p)
    return "unexpected buffer write(s) %s" % [(show(e[1]), show(e[2])) for e in w] if w else None


def entry_is(v, begin, end, bl, what="entry"):
    if not isinstance(v, Obj):
        return "%s is %s" % (what, show(v))
    errs = []
    for f, want in (("begin", begin), ("end", end), ("block_length", bl)):
        if want is None:
            continue
        got = v.get(f)
        if not isinstance(got, Lin) or got != lin(want):
            errs.append("%s.%s = %s, expected %s" % (what, f, show(got), show(want)))
    return "; ".join(errs) if errs else None


def iter_is(v, ptr, bl, index, end, what="iterator"):
    if not isinstance(v, Obj):
        return "%s is %s" % (what, show(v))
    errs = []
    for f, want in (("ptr", ptr), ("block_length", bl), ("index", index), ("end", end)):
        if want is None:
            continue
        got = v.get(f)
        if not isinstance(got, Lin) or got != lin(want):
            errs.append("%s.%s = %s, expected %s" % (what, f, show(got), show(want)))
    return "; ".join(errs) if errs else None


def has_assert(p, cond):
    c = lin(cond)
    for e in asserts(p):
        if lin(e[1]) == c or c in [Lin.atom(("cmp", o, f)) for o, f in conjuncts(e[1])]:
            return True
    return False


def check_groups(chk, lib, limit=None):
    R = Rows(chk, lib, "GRP")
    A, E = sym("this.begin"), sym("this.end")
    for tpl, flat in (("sbepp::detail::flat_group_base", True), ("sbepp::detail::nested_group_base", False)):
        classes = sorted({f["cls"] for (c, n), fs in lib.by_name.items() if c == tpl for f in fs})
        if limit:
            classes = classes[:limit]
        for cls in classes:
            rec = lib.eng.record(cls)
            targs = rec.get("targs") if rec else None
            if not targs:
                continue
            dim_cls = targs[2]
            try:
                D = dim_info(lib, dim_cls)
            except AnalysisBroken as e:
                chk.broke("dimension %s: %s" % (dim_cls, e))
                continue
            H = D["H"]
            # wire values relative to the group's own begin
            N = subst(D["numInGroup"], {})
            BL = D["blockLength"]
            kind = "flat" if flat else "nested"

            def m(name, nparams=None, first=None):
                for f in lib.fns(tpl, name):
                    if f.get("cls") != cls:
                        continue
                    ps = f.get("params") or []
                    if nparams is not None and len(ps) != nparams:
                        continue
                    if first is not None and not (ps and ps[0]["t"].endswith(first)):
                        continue
                    return f
                return None
            # ---- header, sizes
            f = m("operator()", 1, "::get_header_tag")
            if f:
                try:
                    p = single(lib, f)
                    errs = [entry_is(p.ret, A, E, None, "header")[:0] if False else None]
                    rv = p.ret
                    if not isinstance(rv, Obj) or lin(rv.get("begin")) != A or lin(rv.get("end")) != E:
                        errs.append("header view = %s, expected {this.begin, this.end}" % show(rv))
                    want = ("<=", A + H - E)
                    cs = []
                    for e in size_checks(p):
                        cs += conjuncts(e[1])
                    if want not in cs:
                        errs.append("missing SIZE_CHECK of the %s header bytes" % show(H))
                    errs.append(no_writes(p))
                    R.done(f, kind + ".get_header", errs)
                except AnalysisBroken as e:
                    chk.broke("%s.get_header %s: %s" % (kind, cls[-60:], e))
            f = m("size", 0)
            if f:
                p = single(lib, f)
                R.done(f, kind + ".size", [R.cmp(f, "", p.ret, N, "size()"), no_writes(p)])
            f = m("empty", 0)
            if f:
                p = single(lib, f)
                R.done(f, kind + ".empty", [R.cmp(f, "", p.ret, negate_cond(truthy(N)), "empty()"), no_writes(p)])
            for nm, val in (("resize", sym("count")), ("clear", Lin.const(0))):
                f = m(nm)
                if not f:
                    continue
                p = single(lib, f)
                w = writes(p)
                errs = []
                n_atom = [a for a in N.atoms() if a[0] == "wire"]
                if len(n_atom) != 1:
                    raise AnalysisBroken("numInGroup form %s" % show(N))
                n_addr, n_size, n_rev = n_atom[0][1], n_atom[0][2], n_atom[0][3]
                if len(w) != 1 or lin(w[0][1]) != n_addr or lin(w[0][2]) != Lin.const(n_size):
                    errs.append("%s must write exactly numInGroup [%s,+%d); writes: %s"
                                % (nm, show(n_addr), n_size, [(show(e[1]), show(e[2])) for e in w]))
                else:
                    want = Lin.atom(("bswap", n_size, val)) if (n_rev and not val.is_const()) else val
                    if n_rev and val.is_const():
                        want = val   # byte swapped zero is zero
                    if lin(w[0][3]) != want:
                        errs.append("%s writes %s, expected %s" % (nm, show(w[0][3]), show(want)))
                R.done(f, kind + "." + nm, errs)
            # ---- iterators
            f = m("begin", 0)
            if f:
                p = single(lib, f)
                if flat:
                    errs = [iter_is(p.ret, A + H, BL, 0, E, "begin()")]
                else:
                    errs = [iter_is(p.ret, A + H, BL, 0, E, "begin()")]
                errs.append(no_writes(p))
                R.done(f, kind + ".begin", errs)
            f = m("end", 0)
            if f:
                p = single(lib, f)
                if flat:
                    errs = [iter_is(p.ret, A + H + N * BL, BL, N, E, "end()")]
                else:
                    errs = [iter_is(p.ret, None, BL, N, E, "end()")]
                errs.append(no_writes(p))
                R.done(f, kind + ".end", errs)
            f = m("front", 0)
            if f:
                p = single(lib, f)
                errs = [entry_is(p.ret, A + H, E, BL, "front()")]
                if not has_assert(p, truthy(N)) and not has_assert(p, negate_cond(negate_cond(truthy(N)))):
                    errs.append("front() must assert !empty()")
                errs.append(no_writes(p))
                R.done(f, kind + ".front", errs)
            if flat:
                f = m("operator()", 1, "::size_bytes_tag")
                if f:
                    p = single(lib, f)
                    R.done(f, "flat.size_bytes", [R.cmp(f, "", p.ret, H + N * BL, "size_bytes"), no_writes(p)])
                f = m("operator[]", 1)
                if f:
                    p = single(lib, f)
                    pos = sym("pos")
                    errs = [entry_is(p.ret, A + H + pos * BL, E, BL, "operator[](pos)")]
                    if not has_assert(p, cmp_term("<", pos, N)):
                        errs.append("operator[] must assert pos < size() exactly (asserts: %s)" % [show(e[1]) for e in asserts(p) if "SBEPP_SIZE_CHECK" not in e[3]])
                    errs.append(no_writes(p))
                    R.done(f, "flat.operator[]", errs)
                f = m("back", 0)
                if f:
                    p = single(lib, f)
                    errs = [entry_is(p.ret, A + H + N * BL - BL, E, BL, "back()"), no_writes(p)]
                    R.done(f, "flat.back", errs)
            if not flat:
                f = m("operator()", 1, "::size_bytes_tag")
                if f:
                    try:
                        sm = lib.summary(f, max_paths=60)
                        errs = []
                        zero = [p for p in sm.live if not any(e[0] == "loop-begin" for e in p.events)]
                        if len(zero) != 1 or zero[0].ret is None or lin(zero[0].ret) != H:
                            errs.append("empty group: size_bytes = %s, expected the dimension size %s" % ([show(p.ret) for p in zero], show(H)))
                        ent_cls = rint.clean(targs[1])
                        looped = [p for p in sm.live if any(e[0] == "loop-begin" for e in p.events)]
                        decided = False
                        for p in looped[:4]:
                            its = [e for e in p.events if e[0] == "iter" and e[2] == "size"]
                            if not its:
                                errs.append("the entry loop does not accumulate into the returned size")
                                break
                            delta = lin(its[0][4]) - lin(its[0][3])
                            # size of the entry the iterator designates in this iteration
                            ptrs = sorted({a for a in deep_syms(delta) if a[1].endswith(".ptr")})
                            try:
                                esz, _ = lib.tag_call(ent_cls, "size_bytes_tag", "entry")
                            except AnalysisBroken:
                                continue        # entry with variable-length members: its size is itself a loop
                            ren = {("sym", "entry.block_length"): BL, ("sym", "entry.end"): E}
                            if len(ptrs) == 1:
                                ren[("sym", "entry.begin")] = Lin.atom(ptrs[0])
                            want = subst(lin(esz), ren)
                            if strip_cast(delta) != want:
                                errs.append("each iteration adds %s, expected size_bytes(entry) = %s" % (show(delta), show(want)))
                            decided = True
                            break
                        R.done(f, "nested.size_bytes", errs, {"entry_delta_decided": decided})
                    except AnalysisBroken as e:
                        chk.notes.append("nested.size_bytes %s: %s" % (cls[-50:], str(e)[:80])) if len(chk.notes) < 30 else None
            # ---- cursor ranges
            for f in [x for x in lib.fns(tpl, "cursor_range") if x.get("cls") == cls][:2]:
                p = single(lib, f)
                errs = [range_is(p.ret, BL, 0, N, E)]
                R.done(f, kind + ".cursor_range", errs)
            for f in [x for x in lib.fns(tpl, "cursor_subrange") if x.get("cls") == cls][:4]:
                p = single(lib, f)
                pos = sym("pos")
                np_ = len(f.get("params") or [])
                errs = []
                if not has_assert(p, cmp_term("<", pos, N)):
                    errs.append("cursor_subrange must assert pos < size()")
                if np_ == 3:
                    cnt = sym("count")
                    # count <= size() - pos, evaluated in the promoted type
                    ok_cnt = any(o == "<=" and (fx == cnt - N + pos or only_casts(fx, cnt - N + pos)) for e in asserts(p) for o, fx in conjuncts(e[1]))
                    if not ok_cnt:
                        errs.append("cursor_subrange must assert count <= size() - pos (asserts: %s)" % [show(e[1]) for e in asserts(p)])
                    errs.append(range_is(p.ret, BL, pos, cnt, E))
                else:
                    errs.append(range_is(p.ret, BL, pos, None, E, length_like=N - pos))
                R.done(f, kind + ".cursor_subrange%d" % np_, errs)
    return R.count


def deep_syms(l):
    out = set()
    for a in lin(l).atoms():
        if a[0] == "sym":
            out.add(a)
        elif a[0] == "wire":
            out |= deep_syms(a[1])
        elif a[0] == "mul":
            for f in a[1]:
                out |= deep_syms(Lin.atom(f))
        elif a[0] in ("cast", "bswap"):
            for x in a[1:]:
                if isinstance(x, Lin):
                    out |= deep_syms(x)
    return out


def only_casts(a, b):
    """a equals b up to value-preserving-in-range cast atoms"""
    return strip_cast(a) == strip_cast(b)


def strip_cast(l):
    l = lin(l)
    out = Lin.const(l.k)
    for a, c in l.terms:
        if a[0] == "cast":
            out = out + strip_cast(a[2]).scale(c)
        elif a[0] == "mul":
            r = Lin.const(1)
            for f in a[1]:
                r = r * strip_cast(Lin.atom(f))
            out = out + r.scale(c)
        else:
            out = out + Lin.atom(a).scale(c)
    return out


def range_is(v, bl, start, length, end, length_like=None):
    if not isinstance(v, Obj):
        return "cursor range is %s" % show(v)
    errs = []
    for f, want in (("block_length", bl), ("start_pos", start), ("length", length), ("end_ptr", end)):
        if want is None:
            continue
        got = v.get(f)
        if not isinstance(got, Lin) or got != lin(want):
            errs.append("range.%s = %s, expected %s" % (f, show(got), show(lin(want))))
    if length_like is not None:
        got = v.get("length")
        if not isinstance(got, Lin) or strip_cast(got) != lin(length_like):
            errs.append("range.length = %s, expected %s" % (show(got), show(lin(length_like))))
    c = v.get("cursor")
    if not isinstance(c, Ptr):
        errs.append("range.cursor is not the passed cursor")
    return "; ".join(errs) if errs else None


def check_iterators(chk, lib, limit=None):
    R = Rows(chk, lib, "ITER")
    tpl = "sbepp::detail::random_access_iterator"
    P, BLs, I, E = sym("this.ptr"), sym("this.block_length"), sym("this.index"), sym("this.end")
    classes = sorted({f["cls"] for (c, n), fs in lib.by_name.items() if c == tpl for f in fs})
    if limit:
        classes = classes[:limit]
    for cls in classes:
        def m(name, nparams=None, post=None):
            for f in lib.fns(tpl, name):
                if f.get("cls") != cls:
                    continue
                ps = f.get("params") or []
                if nparams is not None and len(ps) != nparams:
                    continue
                return f
            return None

        def state(p):
            th = p.post["this"]
            return th

        f = m("operator*", 0)
        if f:
            p = single(lib, f)
            R.done(f, "ra.deref", [entry_is(p.ret, P, E, BLs, "*it"), no_writes(p)])
        for nm, np_, dptr, didx in (("operator++", 0, BLs, 1), ("operator--", 0, -BLs, -1)):
            f = m(nm, np_)
            if f:
                p = single(lib, f)
                th = state(p)
                errs = [iter_is(th, P + dptr, BLs, I + didx, E, "iterator after " + nm), no_writes(p)]
                if nm == "operator++":
                    cs = []
                    for e in size_checks(p):
                        cs += conjuncts(e[1])
                    if ("<=", P + BLs - E) not in cs:
                        errs.append("operator++ must SIZE_CHECK the entry it steps over")
                R.done(f, "ra." + nm, errs)
        n = sym("n")
        f = m("operator+=", 1)
        if f:
            p = single(lib, f)
            th = state(p)
            idx = th.get("index") if isinstance(th, Obj) else None
            errs = [R.cmp(f, "", th.get("ptr"), P + n * BLs, "ptr after += n")]
            if idx is None or strip_cast(idx) != I + n:
                errs.append("index after += n = %s, expected this.index+n" % show(idx))
            errs.append(no_writes(p))
            R.done(f, "ra.operator+=", errs)
        f = m("operator-=", 1)
        if f:
            p = single(lib, f)
            th = state(p)
            errs = []
            got = th.get("ptr")
            if strip_cast(got) != P - n * BLs and not mul_neg_equal(got, P, n, BLs):
                errs.append("ptr after -= n = %s, expected this.ptr-n*block_length" % show(got))
            idx = th.get("index") if isinstance(th, Obj) else None
            if idx is None or strip_cast(idx) != I - n:
                errs.append("index after -= n = %s, expected this.index-n" % show(idx))
            R.done(f, "ra.operator-=", errs)

        def stripped(v):
            """iterator object with casts of its integer fields removed"""
            if not isinstance(v, Obj):
                return v
            o = Obj(v.cls, v.name, v.symbolic)
            for k_, x in v.fields.items():
                o.fields[k_] = strip_cast(x) if isinstance(x, Lin) else x
            return o
        # it + n, it - n (member functions taking the difference type) and n + it: a new iterator, `it` unchanged
        for f in [x for x in lib.fns(tpl, "operator+") + lib.fns(tpl, "operator-") if x.get("cls") == cls]:
            ps = f.get("params") or []
            if len(ps) != 1 or "random_access_iterator" in ps[0]["t"]:
                continue
            sign = 1 if f["name"] == "operator+" else -1
            p = single(lib, f)
            sn = n if sign > 0 else -n
            errs = [iter_is(stripped(p.ret), P + sn * BLs, BLs, I + sn, None, "it %s n" % ("+" if sign > 0 else "-")), no_writes(p)]
            th = p.post.get("this")
            if isinstance(th, Obj) and (th.get("ptr") not in (None, P) or th.get("index") not in (None, I)):
                errs.append("the operand iterator is modified")
            R.done(f, "ra.it%sn" % ("+" if sign > 0 else "-"), errs)
        for f in [x for x in lib.by_name.get(("", "operator+"), []) if len(x.get("params") or []) == 2 and cls == rint.clean(x["params"][1]["t"])]:
            p = single(lib, f)
            R.done(f, "ra.n+it", [iter_is(stripped(p.ret), sym("it.ptr") + n * sym("it.block_length"), sym("it.block_length"), sym("it.index") + n, None, "n + it")])
        # post-increment / post-decrement: return the old position, advance this
        for nm, dptr, didx in (("operator++", BLs, 1), ("operator--", -BLs, -1)):
            f = m(nm, 1)
            if f:
                p = single(lib, f)
                errs = [iter_is(stripped(p.ret), P, BLs, I, None, "value of it" + nm[-2:]),
                        iter_is(stripped(p.post.get("this")), P + dptr, BLs, I + didx, None, "iterator after it" + nm[-2:])]
                R.done(f, "ra.post" + nm[-2:], errs)
        for f in [x for x in lib.fns(tpl, "operator-") if x.get("cls") == cls]:
            ps = f.get("params") or []
            if ps and "random_access_iterator" in ps[0]["t"]:
                p = single(lib, f)
                got = p.ret
                want = I - sym("rhs.index")
                errs = []
                if got is None or strip_cast(got) != want:
                    errs.append("it - rhs = %s, expected index difference" % show(got))
                R.done(f, "ra.difference", errs)
        f = m("operator[]", 1)
        if f:
            p = single(lib, f)
            R.done(f, "ra.subscript", [entry_is(p.ret, P + n * BLs, E, BLs, "it[n]"), no_writes(p)])
        for op in ("==", "!=", "<", "<=", ">", ">="):
            for f in [x for x in lib.by_name.get(("", "operator" + op), []) if any(cls == rint.clean(pp["t"]) for pp in x.get("params") or [])]:
                p = single(lib, f)
                want = cmp_term(op, sym("lhs.index"), sym("rhs.index"))
                got = p.ret
                errs = []
                if got is None or lin(got) != want:
                    errs.append("comparison %s = %s, expected a comparison of indexes only (%s)" % (op, show(got), show(want)))
                R.done(f, "ra.cmp" + op, errs)
    # forward iterators and input iterators: comparisons by index, ++ index+1
    for tpl2, row in (("sbepp::detail::forward_iterator", "fwd"), ("sbepp::detail::input_iterator", "inp")):
        classes = sorted({f["cls"] for (c, n), fs in lib.by_name.items() if c == tpl2 for f in fs})
        if limit:
            classes = classes[:limit]
        for cls in classes:
            for f in [x for x in lib.fns(tpl2, "operator++") if x.get("cls") == cls and not x.get("params")]:
                try:
                    s = lib.summary(f)
                except AnalysisBroken:
                    continue
                errs = []
                for p in s.live:
                    th = p.post["this"]
                    idx = th.get("index")
                    if strip_cast(idx) != sym("this.index") + 1:
                        errs.append("index after ++ = %s" % show(idx))
                    if row == "inp" and (reads(p) or writes(p)):
                        errs.append("input_iterator::operator++ must not touch the buffer")
                    if row == "fwd":
                        # the step is the size of the entry at ptr: a SIZE_CHECK with the same amount precedes it
                        step = lin(th.get("ptr")) - sym("this.ptr")
                        cs = []
                        for e in size_checks(p):
                            cs += conjuncts(e[1])
                        if ("<=", sym("this.ptr") + step - sym("this.end")) not in cs:
                            errs.append("forward_iterator::operator++ advances by %s without a SIZE_CHECK of exactly that amount" % show(step))
                        break
                R.done(f, row + ".operator++", errs[:2])
            for f in [x for x in lib.fns(tpl2, "operator*") if x.get("cls") == cls]:
                p = single(lib, f)
                if row == "fwd":
                    R.done(f, "fwd.deref", [entry_is(p.ret, sym("this.ptr"), sym("this.end"), sym("this.block_length"), "*it"), no_writes(p)])
                else:
                    R.done(f, "inp.deref", [entry_is(p.ret, sym("this.cursor->.ptr"), sym("this.end"), sym("this.block_length"), "*it"), no_writes(p)])
            for op in ("==", "!="):
                for f in [x for x in lib.by_name.get(("", "operator" + op), []) if any(cls == rint.clean(pp["t"]) for pp in x.get("params") or [])]:
                    p = single(lib, f)
                    want = cmp_term(op, sym("lhs.index"), sym("rhs.index"))
                    errs = []
                    if p.ret is None or lin(p.ret) != want:
                        errs.append("comparison %s = %s, expected indexes only" % (op, show(p.ret)))
                    R.done(f, row + ".cmp" + op, errs)
    # cursor_range begin/end
    tpl3 = "sbepp::detail::cursor_range"
    classes = sorted({f["cls"] for (c, n), fs in lib.by_name.items() if c == tpl3 for f in fs})
    if limit:
        classes = classes[:limit]
    for cls in classes:
        for nm in ("begin", "end"):
            for f in [x for x in lib.fns(tpl3, nm) if x.get("cls") == cls]:
                p = single(lib, f)
                v = p.ret
                errs = []
                if not isinstance(v, Obj):
                    errs.append("not an iterator")
                else:
                    want = sym("this.start_pos") if nm == "begin" else sym("this.start_pos") + sym("this.length")
                    if strip_cast(v.get("index")) != want:
                        errs.append("%s().index = %s, expected %s" % (nm, show(v.get("index")), show(want)))
                    if lin(v.get("block_length")) != sym("this.block_length"):
                        errs.append("%s().block_length = %s" % (nm, show(v.get("block_length"))))
                R.done(f, "range." + nm, errs)
    return R.count


def mul_neg_equal(got, P, n, BL):
    """accept  P + (-n)*BL  in any association"""
    return lin(got) == P + (-n) * BL


def check_bases(chk, lib, limit=None):
    """message_base / entry_base geometry (C03): level and block length come
    from the wire header / the iterator, never from a constant"""
    R = Rows(chk, lib, "BASE")
    A, E = sym("this.begin"), sym("this.end")
    tpl = "sbepp::detail::message_base"
    classes = sorted({f["cls"] for (c, n), fs in lib.by_name.items() if c == tpl for f in fs})
    if limit:
        classes = classes[:limit]
    for cls in classes:
        rec = lib.eng.record(cls)
        hdr_cls = rec["targs"][1]
        this = Obj(rint.clean(hdr_cls), "this", symbolic=True)
        H, _ = lib.tag_call(hdr_cls, "size_bytes_tag", "this")
        H = lin(H)
        g = lib.method(hdr_cls, "blockLength", nparams=0)
        ps = [p for p in lib.eng.summarise(g, this_obj=this) if not p.aborted]
        BL = scalar_of(ps[0].ret)
        for f in lib.fns(tpl, "operator()"):
            if f.get("cls") != cls:
                continue
            prm = f.get("params") or []
            t0 = prm[0]["t"] if prm else ""
            if t0.endswith("::get_level_tag"):
                p = single(lib, f)
                R.done(f, "msg.level", [R.cmp(f, "", p.ret, A + H, "level"), no_writes(p)])
            elif t0.endswith("::get_block_length_tag"):
                p = single(lib, f)
                got = p.ret
                errs = [R.cmp(f, "", got, BL, "block length")]
                if isinstance(got, Lin) and not any(a[0] == "wire" for a in got.atoms()):
                    errs.append("block length does not come from the wire header")
                R.done(f, "msg.block_length", errs + [no_writes(p)])
            elif t0.endswith("::get_header_tag"):
                p = single(lib, f)
                rv = p.ret
                errs = []
                if not isinstance(rv, Obj) or lin(rv.get("begin")) != A or lin(rv.get("end")) != E:
                    errs.append("header view = %s" % show(rv))
                cs = []
                for e in size_checks(p):
                    cs += conjuncts(e[1])
                if ("<=", A + H - E) not in cs:
                    errs.append("missing SIZE_CHECK of the header bytes")
                R.done(f, "msg.header", errs + [no_writes(p)])
            elif t0.endswith("::size_bytes_tag") and len(prm) == 2:
                p = single(lib, f)
                R.done(f, "msg.size_bytes(cursor)", [R.cmp(f, "", p.ret, sym("c.ptr") - A, "size_bytes(m, c)"), no_writes(p)])
    tpl = "sbepp::detail::entry_base"
    classes = sorted({f["cls"] for (c, n), fs in lib.by_name.items() if c == tpl for f in fs})
    if limit:
        classes = classes[:limit]
    for cls in classes:
        for f in lib.fns(tpl, "operator()"):
            if f.get("cls") != cls:
                continue
            prm = f.get("params") or []
            t0 = prm[0]["t"] if prm else ""
            if t0.endswith("::get_level_tag"):
                p = single(lib, f)
                R.done(f, "entry.level", [R.cmp(f, "", p.ret, A, "level")])
            elif t0.endswith("::get_block_length_tag"):
                p = single(lib, f)
                R.done(f, "entry.block_length", [R.cmp(f, "", p.ret, sym("this.block_length"), "block length")])
    # free accessor helpers
    for nm in ("get_first_dynamic_field_view", "get_dynamic_field_view"):
        seen = 0
        for f in lib.by_name.get(("", nm), []):
            if limit and seen >= limit * 4:
                break
            seen += 1
            try:
                p = single(lib, f)
            except AnalysisBroken:
                continue        # previous member is a nested group: size is a loop
            rv = p.ret
            errs = []
            vc = rint.clean(f["params"][0]["t"])
            if nm == "get_first_dynamic_field_view":
                lvl, _ = lib.tag_call(vc, "get_level_tag")
                bl, _ = lib.tag_call(vc, "get_block_length_tag")
                want = lin(lvl) + lin(bl)
                if not isinstance(rv, Obj) or lin(rv.get("begin")) != want or lin(rv.get("end")) != sym("view.end"):
                    errs.append("first dynamic member at %s, expected level + wire blockLength = %s" % (show(rv), show(want)))
                if isinstance(want, Lin) and not any(a[0] == "wire" or (a[0] == "sym" and a[1].endswith("block_length")) for a in want.atoms()):
                    errs.append("level end does not depend on a wire/iterator block length")
            else:
                pc = rint.clean(f["params"][1]["t"])
                try:
                    sz, _ = lib.tag_call(pc, "size_bytes_tag", "prev")
                except AnalysisBroken:
                    continue
                want = sym("prev.begin") + lin(sz)
                if not isinstance(rv, Obj) or lin(rv.get("begin")) != want or lin(rv.get("end")) != sym("view.end"):
                    errs.append("member view %s, expected {prev + size_bytes(prev) = %s, view.end}" % (show(rv), show(want)))
            R.done(f, "view." + nm, errs + [no_writes(p)])
    return R.count


def check_ctors(chk, lib):
    """BASE.ctor: the (pointer, size) constructors of the view classes establish end = begin + size: every
    SBEPP_SIZE_CHECK of every derived view is relative to that `end` (C10 anchor `end pointer carried by every view`)"""
    n = 0
    seen = set()
    for fn in lib.eng.fns.values():
        if not fn["file"].endswith("sbepp.hpp") or not fn.get("ctor") or fn.get("body") is None:
            continue
        ps = fn.get("params") or []
        if len(ps) < 2 or not ps[0]["t"].rstrip().endswith("*"):
            continue
        t1 = ps[1]["t"].replace("const ", "")
        kind = "size" if t1 in ("unsigned long", "std::size_t") else ("end" if t1.rstrip().endswith("*") else None)
        if kind is None:
            continue
        key = (fn.get("cls_tpl"), kind, len(ps))
        if key in seen:
            continue
        seen.add(key)
        try:
            s = lib.summary(fn)
        except (AnalysisBroken, PathLimit):
            continue
        errs = []
        a0, a1 = sym(ps[0]["name"]), sym(ps[1]["name"])
        for p in s.live:
            th = p.post.get("this")
            if not isinstance(th, Obj):
                continue
            b, e = th.fields.get("begin"), th.fields.get("end")
            if b is None:
                continue
            if not isinstance(b, Lin) or b != a0:
                errs.append("begin = %s, expected the pointer argument" % (show(b) if isinstance(b, Lin) else b))
            want = a0 + a1 if kind == "size" else a1
            if e is not None and (not isinstance(e, Lin) or e != want):
                errs.append("end = %s, expected %s" % (show(e) if isinstance(e, Lin) else e, show(want)))
        n += 1
        row = "ctor.%s(ptr,%s)" % ((fn.get("cls_tpl") or "?").split("::")[-1], kind)
        if errs:
            chk.violation("BASE.ctor", row, where(fn), "%s [%s]: %s" % (fn["qn"][:160], lib.label, "; ".join(sorted(set(errs)))))
        else:
            chk.ok("BASE.ctor", row, {"function": fn["qn"][:120]})
    return n

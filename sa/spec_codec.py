"""Codec rows (C01, C02): get_primitive / set_primitive / get_value / set_value
against the SBE encoding table, for both build paths."""
from common import *
import rint
from symex import *
from libsum import *

NATIVE = "#sbepp::endian::little"      # host byte order of this image (asserted below)


def native_order(lib):
    if getattr(lib, "_native_order", None) is None:
        lib._native_order = _native_order(lib)
    return lib._native_order


def _native_order(lib):
    for e in lib.facts.get("enums", []):
        if e["qn"] in ("sbepp::endian", "std::endian"):
            vals = {x["name"]: x["value"] for x in e["enumerators"]}
            if vals.get("native") == vals.get("little"):
                return "little"
            if vals.get("native") == vals.get("big"):
                return "big"
    # C++20: sbepp::endian is std::endian (declared outside the analysed roots);
    # take the target's byte order from the compiler's predefined macros
    r = run(["clang++", "-dM", "-E", "-x", "c++", "/dev/null"])
    d = dict(l.split()[1:3] for l in r.stdout.splitlines() if l.startswith("#define __") and len(l.split()) >= 3)
    if d.get("__BYTE_ORDER__") == "__ORDER_LITTLE_ENDIAN__":
        return "little"
    if d.get("__BYTE_ORDER__") == "__ORDER_BIG_ENDIAN__":
        return "big"
    raise AnalysisBroken("cannot determine native byte order")


def check(chk, lib, which):
    nat = native_order(lib)
    for nm, rule in (("get_primitive", "CODEC.get"), ("set_primitive", "CODEC.set")):
        if nm.split("_")[0] not in which:
            continue
        for f in lib.fns("", nm):
            if (f.get("base") or "") != "sbepp::detail::" + nm:
                continue
            ta = f.get("targs") or []
            if nm == "get_primitive":
                T, E = ta[0], ta[1]
            else:
                E, T = ta[0], ta[1]
            size = type_size(T, lib.eng)
            key = "%s<%s,%s>" % (nm, rint.clean(T).split("::")[-1], E.split("::")[-1])
            if size is None:
                chk.broke("codec: size of %s unknown" % T)
                continue
            rev = (E.split("::")[-1] != nat) and size > 1
            try:
                s = lib.summary(f)
            except AnalysisBroken as e:
                chk.broke("codec %s: %s" % (key, e))
                continue
            live = s.live
            errs = []
            if len(live) != 1:
                errs.append("%d paths" % len(live))
            else:
                p = live[0]
                ptr = sym("ptr")
                if nm == "get_primitive":
                    r = reads(p)
                    if len(r) != 1 or lin(r[0][1]) != ptr or lin(r[0][2]) != Lin.const(size):
                        errs.append("expected exactly READ(ptr, %d), got %s" % (size, [(show(e[1]), show(e[2])) for e in r]))
                    want = Lin.atom(("wire", ptr, size, rev))
                    if p.ret is None or not isinstance(p.ret, Lin) or p.ret != want:
                        errs.append("returns %s, SBE encoding requires %s (%s)" % (show(p.ret), show(want),
                                                                                   "bytes reversed" if rev else "bytes as stored"))
                    if writes(p):
                        errs.append("decoder writes to the buffer")
                else:
                    w = writes(p)
                    if len(w) != 1 or lin(w[0][1]) != ptr or lin(w[0][2]) != Lin.const(size):
                        errs.append("expected exactly WRITE(ptr, %d), got %s" % (size, [(show(e[1]), show(e[2])) for e in w]))
                    else:
                        v = sym("value")
                        want = Lin.atom(("bswap", size, v)) if rev else v
                        if not isinstance(w[0][3], Lin) or w[0][3] != want:
                            errs.append("writes %s, SBE encoding requires %s" % (show(w[0][3]), show(want)))
                    if reads(p):
                        errs.append("encoder reads the buffer")
            if errs:
                chk.violation(rule, "%s:%s" % (nm, "swap" if rev else "native"), where(f),
                              "%s [%s]: %s" % (f["qn"][:160], lib.label, "; ".join(errs)))
            else:
                chk.ok(rule, key + "@" + lib.label.split()[1], {"function": f["qn"][:120], "size": size, "reversed": rev})
    if "get_value" in which:
        A, E_ = sym("view.begin"), sym("view.end")
        off = sym("offset")
        for nm in ("get_value", "set_value"):
            seen = set()
            for f in lib.fns("", nm):
                if (f.get("base") or "") != "sbepp::detail::" + nm:
                    continue
                ta = f.get("targs") or []
                U = ta[1]
                size = type_size(U, lib.eng)
                sk = (rint.clean(U), ta[2] if nm == "get_value" else ta[0])
                if sk in seen or size is None:
                    continue
                seen.add(sk)
                p = lib.summary(f).live[0]
                acc = reads(p) if nm == "get_value" else writes(p)
                errs = []
                if len(acc) != 1 or lin(acc[0][1]) != A + off or lin(acc[0][2]) != Lin.const(size):
                    errs.append("expected exactly one access of [view.begin+offset, +%d), got %s" % (size, [(show(e[1]), show(e[2])) for e in acc]))
                cs = []
                for e in size_checks(p):
                    cs += conjuncts(e[1])
                if ("<=", A + off + size - E_) not in cs:
                    errs.append("SIZE_CHECK does not bound offset + sizeof(%s)=%d against view.end (checks %s)" % (rint.clean(U), size, [show(f2) for o, f2 in cs]))
                key = "%s<%s>" % (nm, ",".join(str(x).split("::")[-1] for x in sk))
                if errs:
                    chk.violation("CODEC.value", nm, where(f), "%s [%s]: %s" % (f["qn"][:160], lib.label, "; ".join(errs)))
                else:
                    chk.ok("CODEC.value", key + "@" + lib.label.split()[1], {"function": f["qn"][:120], "size": size})


def check_constexpr(chk, lib):
    """C++20: accessor helpers are constexpr and (transitively) call only
    constexpr functions defined in sbepp.hpp or constexpr std algorithms."""
    for nm in ("get_primitive", "set_primitive", "get_value", "set_value", "get_static_field_view"):
        fs = [f for f in lib.fns("", nm) if (f.get("base") or "") == "sbepp::detail::" + nm]
        if not fs:
            continue
        f = fs[0]
        key = "constexpr:" + nm
        if not f.get("constexpr"):
            chk.violation("CODEC.constexpr", key, where(f), "%s is not constexpr under %s" % (nm, lib.label))
            continue
        bad = []
        for n in walk(f["body"]):
            c = n.get("callee")
            if c and c.get("key") in lib.eng.fns:
                cal = lib.eng.fns[c["key"]]
                if cal["file"].endswith("sbepp.hpp") and not cal.get("constexpr"):
                    bad.append(cal["qn"][:80])
            elif c and c.get("base") in ("std::memcpy", "memcpy"):
                bad.append("memcpy (not usable in constant evaluation)")
        if bad:
            chk.violation("CODEC.constexpr", key, where(f), "%s under %s calls non-constexpr %s" % (nm, lib.label, sorted(set(bad))))
        else:
            chk.ok("CODEC.constexpr", key + "@" + lib.label, {"function": f["qn"][:100]})

"""R-CHK (C10): in the assert-enabled configuration every buffer access of
every public operation is dominated, on every path, by a size check / assertion
of the same operation that bounds exactly the bytes accessed (same base,
covering width).  R-PRE: documented container preconditions are asserted
with the documented strictness (so boundary-valid calls cannot trip them).
"""
from common import *
import rint
from symex import *
from libsum import *

# entry points: the operations user code (or generated accessors) call
DETAIL_ENTRY = {"sbepp::detail::get_value", "sbepp::detail::set_value",
                "sbepp::detail::get_static_field_view", "sbepp::detail::get_first_dynamic_field_view",
                "sbepp::detail::get_dynamic_field_view"}
# helpers that rely on their callers' checks (never called by user code)
HELPERS = {"sbepp::detail::get_primitive", "sbepp::detail::set_primitive", "sbepp::detail::byteswap",
           "sbepp::detail::string_length", "sbepp::detail::is_constant_evaluated"}


# operations whose written length cannot be known before the copy (single-pass
# input): the documented behaviour is a check *after* the copy - the handler is
# still invoked, which is what C10 states ("if the handler is not invoked ...")
POST_CHECK_OK = {
    "sbepp::detail::dynamic_array_ref::assign": "iterator-pair assign copies first, then resize() checks",
    "sbepp::detail::dynamic_array_ref::assign_range": "range length unknown before the copy; resize() checks after",
    "sbepp::detail::static_array_ref::assign": "iterator-pair assign copies first, then asserts last_out - begin() <= size()",
    "sbepp::detail::static_array_ref::assign_range": "copies first, then asserts res <= end()",
    "sbepp::detail::static_array_ref::assign_string": "range overload forwards to assign_range",
}

# validity of iterator-range arguments ("called with otherwise valid arguments")
def arg_facts(fn):
    names = [p["name"] for p in fn.get("params") or []]
    out = []
    if "first" in names and "last" in names:
        out.append(("<=", sym("first") - sym("last")))
    return out


def is_entry(fn, gen_root):
    f = fn["file"]
    if fn.get("lambda") or fn.get("dependent") or not fn.get("body"):
        return False
    if "_harness" in f or f.endswith("vh_common.hpp"):
        return False
    base = fn.get("base") or ""
    if f.endswith("sbepp.hpp"):
        if fn.get("cls"):
            return fn.get("access", "public") == "public"
        if base in DETAIL_ENTRY:
            return True
        if base.startswith("sbepp::detail::"):
            return False
        return True
    if gen_root and f.startswith(gen_root):
        return fn.get("access", "public") == "public"
    return False


def shape_key(fn):
    """group instantiations that can only differ in names, not in arithmetic:
    template name + integer/endian template arguments + sizes of the rest"""
    ta = []
    for a in (fn.get("cls_targs") or []) + (fn.get("targs") or []):
        a = str(a)
        if a.startswith("#") or rint.int_info(a):
            ta.append(a)
        else:
            ta.append("T")
    return (rint.fn_name(fn), tuple(ta))


def check(chk, lib, gen_root, per_shape=2, max_paths=200, skip_visit=True):
    groups = {}
    for fn in lib.eng.fns.values():
        if is_entry(fn, gen_root):
            groups.setdefault(shape_key(fn), []).append(fn)
    n_fn = n_acc = n_skip = 0
    for sk, fns in sorted(groups.items(), key=lambda x: repr(x[0])):
        fns = sorted(fns, key=lambda f: f["qn"])[:per_shape]
        for fn in fns:
            nm = fn["name"]
            if skip_visit and (nm in ("visit", "visit_children", "size_bytes_checked", "on_message", "on_group", "on_entry")
                               or (nm == "operator()" and any(p["t"].endswith("visit_tag") or p["t"].endswith("visit_children_tag")
                                                              for p in fn.get("params") or []))):
                n_skip += 1
                continue
            try:
                s = lib.summary(fn, max_paths=max_paths)
            except PathLimit:
                n_skip += 1
                continue
            except Unsupported as e:
                chk.notes.append("R-CHK: %s not analysable: %s" % (fn["qn"][:120], str(e)[:120])) if len(chk.notes) < 40 else None
                n_skip += 1
                continue
            n_fn += 1
            af = arg_facts(fn)
            for p in s.paths:
                p._arg_facts = af
                for i, e in buffer_accesses(p):
                    n_acc += 1
                    okc, why = access_covered(p, i)
                    key = "%s|%s" % (rint.fn_name(fn), e[0])
                    if not okc and rint.fn_name(fn) in POST_CHECK_OK:
                        okc, why = access_covered(p, i, post=True)
                        why = "post-dominating check (%s): %s" % (POST_CHECK_OK[rint.fn_name(fn)], why)
                    if okc:
                        chk.ok("R-CHK", key + "|" + show(e[1]), {"function": fn["qn"][:140], "access": [e[0], show(e[1]), show(e[2])], "covered": why},
                               nontrivial=True)
                    else:
                        chk.violation("R-CHK", key, where(fn),
                                      "%s of [%s, +%s) in %s [%s] is not covered by a dominating size check/assertion: %s"
                                      % (e[0], show(e[1]), show(e[2]), fn["qn"][:200], lib.label, why))
    return n_fn, n_acc, n_skip

"""R-CHK (C10): in the assert-enabled configuration every buffer access of
every public operation is dominated, on every path, by a size check / assertion
of the same operation that bounds exactly the bytes accessed (same base,
covering width).  R-PRE: documented container preconditions are asserted
with the documented strictness (so boundary-valid calls cannot trip them).
"""
from common import *
import rint
from symex import *
from libsum import *

# entry points: the operations user code (or generated accessors) call
DETAIL_ENTRY = {"sbepp::detail::get_value", "sbepp::detail::set_value",
                "sbepp::detail::get_static_field_view", "sbepp::detail::get_first_dynamic_field_view",
                "sbepp::detail::get_dynamic_field_view"}
# helpers that rely on their callers' checks (never called by user code)
HELPERS = {"sbepp::detail::get_primitive", "sbepp::detail::set_primitive", "sbepp::detail::byteswap",
           "sbepp::detail::string_length", "sbepp::detail::is_constant_evaluated"}


# operations whose written length cannot be known before the copy (single-pass
# input): the documented behaviour is a check *after* the copy - the handler is
# still invoked, which is what C10 states ("if the handler is not invoked ...")
POST_CHECK_OK = {
    "sbepp::detail::dynamic_array_ref::assign": "iterator-pair assign copies first, then resize() checks",
    "sbepp::detail::dynamic_array_ref::assign_range": "range length unknown before the copy; resize() checks after",
    "sbepp::detail::static_array_ref::assign": "iterator-pair assign copies first, then asserts last_out - begin() <= size()",
    "sbepp::detail::static_array_ref::assign_range": "copies first, then asserts res <= end()",
    "sbepp::detail::static_array_ref::assign_string": "range overload forwards to assign_range",
}

# validity of iterator-range arguments ("called with otherwise valid arguments")
def arg_facts(fn):
    names = [p["name"] for p in fn.get("params") or []]
    out = []
    if "first" in names and "last" in names:
        out.append(("<=", sym("first") - sym("last")))
    return out


def is_entry(fn, gen_root):
    f = fn["file"]
    if fn.get("lambda") or fn.get("dependent") or not fn.get("body"):
        return False
    if "_harness" in f or f.endswith("vh_common.hpp"):
        return False
    base = fn.get("base") or ""
    if f.endswith("sbepp.hpp"):
        if fn.get("cls"):
            return fn.get("access", "public") == "public"
        if base in DETAIL_ENTRY:
            return True
        if base.startswith("sbepp::detail::"):
            return False
        return True
    if gen_root and f.startswith(gen_root):
        return fn.get("access", "public") == "public"
    return False


def shape_key(fn):
    """group instantiations that can only differ in names, not in arithmetic:
    template name + integer/endian template arguments + sizes of the rest"""
    ta = []
    for a in (fn.get("cls_targs") or []) + (fn.get("targs") or []):
        a = str(a)
        if a.startswith("#") or rint.int_info(a):
            ta.append(a)
        else:
            ta.append("T")
    return (rint.fn_name(fn), tuple(ta))


def data_dependent(l):
    """does the linear form depend on buffer contents (a wire read, or a quantity accumulated by a loop over them)?"""
    for a in lin(l).atoms():
        if a[0] == "wire":
            return True
        if a[0] == "sym" and "@L" in a[1]:
            return True
        if a[0] == "mul" and any(isinstance(x, tuple) and (x[0] == "wire" or (x[0] == "sym" and "@L" in x[1])) for x in a[1]):
            return True
    return False


def step_rule(chk, lib, fn, s, classes_with_end):
    """R-CHK.step: an operation of a view/iterator class that carries `end` and moves its own `ptr` by an amount read
    from the buffer must have established ptr' <= end by its asserted checks: otherwise ptr passes end without the
    handler and every later SBEPP_SIZE_CHECK computes (end - ptr) as a huge unsigned value and lets the access through"""
    if fn.get("cls_tpl") not in classes_with_end and fn.get("cls") not in classes_with_end:
        return 0
    n = 0
    pre, end = sym("this.ptr"), sym("this.end")
    for p in s.live:
        th = p.post.get("this")
        np_ = th.fields.get("ptr") if isinstance(th, Obj) else None
        if not isinstance(np_, Lin) or np_ == pre:
            continue
        if not data_dependent(np_ - pre):
            continue
        n += 1
        facts = facts_before(p, len(p.events))
        key = "%s|step" % rint.fn_name(fn)
        if nonpos(np_ - end, facts):
            chk.ok("R-CHK.step", key + "|" + show(np_)[:60], {"function": fn["qn"][:140], "new_ptr": show(np_)}, nontrivial=True)
        else:
            chk.violation("R-CHK.step", key, where(fn),
                          "%s [%s] moves ptr to %s, an amount read from the buffer, and no asserted check of the operation "
                          "implies ptr <= end afterwards: the handler is not invoked and later size checks on the moved "
                          "view wrap around" % (fn["qn"][:200], lib.label, show(np_)))
    return n


_MACRO_SEEN = {}


def macro_rule(chk, lib, fn, s):
    """R-CHK.macro: the bound a size check establishes is `offset + size <= (size_t)(end - begin)`: it means what the
    rules above take it to mean only if the same check also establishes begin <= end (a view located from a corrupted
    size of its predecessor starts behind `end`, and the unsigned difference is huge).  Every SBEPP_SIZE_CHECK
    assertion must therefore carry the conjunct begin - end <= 0 for its own begin / end."""
    for p in s.paths:
        for e in p.events:
            if e[0] != "assert" or "SBEPP_SIZE_CHECK" not in (e[3] if len(e) > 3 else ()):
                continue
            cs = conjuncts(e[1])
            ends = [a for op, f in cs if op in ("<=", "<") for a in end_syms(f)]
            if not ends:
                continue
            E = Lin.atom(ends[0])
            bounds = [f for op, f in cs if op in ("<=", "<") and end_syms(f)]
            # the plain ordering conjunct: X - end <= 0 with X one of the operands' begin (a form with no other offset)
            nes = [f for op, f in cs if op == "!="]
            ok_ = any(any(f == b - E for b in nes) for f in bounds) if nes else False
            key = "size-check-orders-view"
            if ok_:
                if not _MACRO_SEEN.get(id(chk)):
                    _MACRO_SEEN[id(chk)] = True
                    chk.ok("R-CHK.macro", key, {"example": show(e[1])[:160]}, nontrivial=True)
            else:
                chk.violation("R-CHK.macro", key, where(fn),
                              "a size check in %s asserts %s without `begin <= end`: for a view that starts behind the end of "
                              "the buffer `(size_t)(end - begin)` is huge and the check passes" % (fn["qn"][:140], show(e[1])[:200]))
            return


# the only operations that *originate* a bound (everything else hands on the bound of the view it works on)
VIEW_ORIGINS = {"sbepp::make_view": "end = ptr + size, the size the caller states",
                "sbepp::make_const_view": "end = ptr + size, the size the caller states"}


def derive_rule(chk, lib, fn, s):
    """R-CHK.derive: a view or iterator an operation hands out must carry the end pointer of the view it was derived
    from (this / a view parameter / the view a getter returns).  A bound recomputed from the derived object's own
    size (`begin + N`) passes every later SBEPP_SIZE_CHECK exactly when the object lies beyond the real end of the
    buffer - the handler is never invoked for it."""
    n = 0
    name = rint.fn_name(fn)
    for p in s.live:
        r = p.ret
        if not isinstance(r, Obj) or "end" not in r.fields:
            continue
        e = r.fields["end"]
        b = r.fields.get("begin", r.fields.get("ptr"))
        if not isinstance(e, Lin) or not isinstance(b, Lin):
            continue
        if not has_view_sym(b):
            continue                    # not located in a buffer the operation was given (constant arrays of generated code)
        n += 1
        key = "%s|derive" % name
        inherited = [a for a in e.atoms() if a[0] == "sym" and (a[1].endswith(".end") or ".end@" in a[1] or ".end_ptr" in a[1])]
        if inherited and len(e.terms) == 1 and e.k == 0:
            chk.ok("R-CHK.derive", key + "|" + show(e)[:40], {"function": fn["qn"][:140], "end": show(e)}, nontrivial=True)
        elif name in VIEW_ORIGINS:
            chk.ok("R-CHK.derive", key + "|origin", {"function": fn["qn"][:140], "end": show(e), "origin": VIEW_ORIGINS[name]})
        elif not inherited:
            chk.violation("R-CHK.derive", key, where(fn),
                          "%s [%s] hands out a view whose end is %s - computed from the derived object itself, not inherited "
                          "from the view it was obtained from: when the buffer ends before it, size checks on the derived view "
                          "compare against a bound that lies outside the buffer and never invoke the handler"
                          % (fn["qn"][:200], lib.label, show(e)))
        else:
            chk.broke("R-CHK.derive: end of the view returned by %s is %s (neither inherited as is nor independent of the parent)"
                      % (fn["qn"][:160], show(e)))
    return n


def ref_rule(chk, lib, fn, s):
    """R-CHK.ref: an operation that hands out a reference to an element of the buffer (operator[], front, back, *it on
    arrays) lets the caller read or write those bytes: [addr, addr + sizeof) of the returned lvalue must be covered by
    the operation's asserted checks like an access of its own"""
    n = 0
    if fn.get("cls_tpl") == "sbepp::detail::static_array_ref" and fn["name"] in ("front", "back") \
            and len(fn.get("cls_targs") or []) > 2 and str(fn["cls_targs"][2]).lstrip("#") == "0":
        # zero-length arrays (the `varData` element of a data header): front()/back() have no element to refer to,
        # as for std::array<T, 0>; calling them is not a "call with valid arguments"
        return 0
    for p in s.live:
        r = p.ret
        if not isinstance(r, MemLoc) or not isinstance(r.addr, Lin):
            continue
        if not (has_view_sym(r.addr)):
            continue
        n += 1
        p._arg_facts = arg_facts(fn)
        ev = ("ref", r.addr, lin(r.size if r.size is not None else 1))
        p.events.append(ev)
        try:
            okc, why = access_covered(p, len(p.events) - 1)
        finally:
            p.events.pop()
            if hasattr(p, "_facts"):
                del p._facts
        key = "%s|ref" % rint.fn_name(fn)
        if okc:
            chk.ok("R-CHK.ref", key + "|" + show(r.addr)[:60], {"function": fn["qn"][:140], "lvalue": [show(r.addr), show(ev[2])], "covered": why}, nontrivial=True)
        else:
            chk.violation("R-CHK.ref", key, where(fn),
                          "%s [%s] returns a reference to [%s, +%s) which no asserted check of the operation covers: %s"
                          % (fn["qn"][:200], lib.label, show(r.addr), show(ev[2]), why[:300]))
    return n


def check(chk, lib, gen_root, per_shape=2, max_paths=200, skip_visit=True):
    classes_with_end = set()
    for r in lib.facts.get("records", []):
        fl = {x["name"] for x in r.get("fields") or []}
        if "ptr" in fl and "end" in fl and r.get("file", "").endswith("sbepp.hpp"):
            classes_with_end.add(r.get("tpl") or r.get("qn"))
    n_step = 0
    groups = {}
    for fn in lib.eng.fns.values():
        if is_entry(fn, gen_root):
            groups.setdefault(shape_key(fn), []).append(fn)
    n_fn = n_acc = n_skip = n_der = 0
    for sk, fns in sorted(groups.items(), key=lambda x: repr(x[0])):
        fns = sorted(fns, key=lambda f: f["qn"])[:per_shape]
        for fn in fns:
            nm = fn["name"]
            if skip_visit and (nm in ("visit", "visit_children", "size_bytes_checked", "on_message", "on_group", "on_entry")
                               or (nm == "operator()" and any(p["t"].endswith("visit_tag") or p["t"].endswith("visit_children_tag")
                                                              for p in fn.get("params") or []))):
                n_skip += 1
                continue
            try:
                s = lib.summary(fn, max_paths=max_paths)
            except PathLimit:
                n_skip += 1
                continue
            except Unsupported as e:
                chk.notes.append("R-CHK: %s not analysable: %s" % (fn["qn"][:120], str(e)[:120])) if len(chk.notes) < 40 else None
                n_skip += 1
                continue
            n_fn += 1
            macro_rule(chk, lib, fn, s)
            n_step += step_rule(chk, lib, fn, s, classes_with_end)
            n_acc += ref_rule(chk, lib, fn, s)
            n_der += derive_rule(chk, lib, fn, s)
            af = arg_facts(fn)
            for p in s.paths:
                p._arg_facts = af
                for i, e in buffer_accesses(p):
                    n_acc += 1
                    okc, why = access_covered(p, i)
                    key = "%s|%s" % (rint.fn_name(fn), e[0])
                    if not okc and rint.fn_name(fn) in POST_CHECK_OK:
                        okc, why = access_covered(p, i, post=True)
                        why = "post-dominating check (%s): %s" % (POST_CHECK_OK[rint.fn_name(fn)], why)
                    if okc:
                        chk.ok("R-CHK", key + "|" + show(e[1]), {"function": fn["qn"][:140], "access": [e[0], show(e[1]), show(e[2])], "covered": why},
                               nontrivial=True)
                    else:
                        chk.violation("R-CHK", key, where(fn),
                                      "%s of [%s, +%s) in %s [%s] is not covered by a dominating size check/assertion: %s"
                                      % (e[0], show(e[1]), show(e[2]), fn["qn"][:200], lib.label, why))
    chk.extra["rchk_steps"] = chk.extra.get("rchk_steps", 0) + n_step
    chk.extra["rchk_derived_views"] = chk.extra.get("rchk_derived_views", 0) + n_der
    return n_fn, n_acc, n_skip

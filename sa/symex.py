"""E2: path-sensitive affine/effect dataflow over the typed AST of library and
generated functions (facts from tool/sbepp-facts).

A value is a linear form  sum c_i * atom_i + k  over opaque atoms (parameters,
object state at entry, wire reads W(addr,n,rev), products of atoms, casts that
may change the value, uninterpreted calls), an object (dict of fields), a
location, or a pointer to a location.  Transfer functions follow the AST:
assignments, + - * on linear forms, pointer arithmetic, member access,
constructor / call inlining through the callee's own AST (bounded depth),
hand-written summaries only for the standard-library primitives the code
bottoms out in.  Branches whose condition is not a constant are explored on
both sides (decision replay, depth first); a loop is abstracted by the
zero-iteration path and one *generic* iteration over havocked loop-carried
state.  No solver: comparisons of results are equality of normal forms, and
`implies` below is a single linear combination step.

The result of summarising a function is a list of paths, each with
   events : ('read', addr, len) ('write', addr, len, data) ('assert', cond)
            ('assume', cond, taken) ('call', name, ...) ('abort',)
   ret    : value
   post   : final object state of `this` / reference arguments
"""
import copy
import itertools
import re

from common import *
import rint


class Unsupported(AnalysisBroken):
    pass


class PathLimit(AnalysisBroken):
    pass


# ----------------------------------------------------------------- linear forms
_ATOM_ORDER = {}


def atom_order(a):
    i = _ATOM_ORDER.get(a)
    if i is None:
        i = _ATOM_ORDER[a] = len(_ATOM_ORDER)
    return i


class Lin:
    __slots__ = ("terms", "k", "_h")

    def __init__(self, terms=None, k=0):
        if terms:
            self.terms = tuple(sorted(((a, c) for a, c in terms.items() if c != 0), key=lambda x: atom_order(x[0])))
        else:
            self.terms = ()
        self.k = k
        self._h = None

    @staticmethod
    def const(k):
        return Lin(None, k)

    @staticmethod
    def atom(a):
        return Lin({a: 1}, 0)

    def is_const(self):
        return not self.terms

    def as_dict(self):
        return dict(self.terms)

    def __add__(self, o):
        o = lin(o)
        d = self.as_dict()
        for a, c in o.terms:
            d[a] = d.get(a, 0) + c
        return Lin(d, self.k + o.k)

    def __neg__(self):
        return Lin({a: -c for a, c in self.terms}, -self.k)

    def __sub__(self, o):
        return self + (-lin(o))

    def scale(self, c):
        return Lin({a: v * c for a, v in self.terms}, self.k * c)

    def __mul__(self, o):
        o = lin(o)
        if o.is_const():
            return self.scale(o.k)
        if self.is_const():
            return o.scale(self.k)
        # polynomial product kept as monomials (sorted factor tuples)
        d = {}
        for a, c in list(self.terms) + [(None, self.k)]:
            for b, e in list(o.terms) + [(None, o.k)]:
                if c == 0 or e == 0:
                    continue
                if a is None and b is None:
                    continue
                if a is None:
                    m = b
                elif b is None:
                    m = a
                else:
                    fa = a[1] if isinstance(a, tuple) and a[0] == "mul" else (a,)
                    fb = b[1] if isinstance(b, tuple) and b[0] == "mul" else (b,)
                    m = ("mul", tuple(sorted(fa + fb, key=atom_order)))
                d[m] = d.get(m, 0) + c * e
        return Lin(d, self.k * o.k)

    def __eq__(self, o):
        return isinstance(o, Lin) and self.terms == o.terms and self.k == o.k

    def __hash__(self):
        if self._h is None:
            self._h = hash((self.terms, self.k))
        return self._h

    def __repr__(self):
        return show(self)

    def atoms(self):
        return [a for a, _ in self.terms]


def lin(x):
    if isinstance(x, Lin):
        return x
    if isinstance(x, bool):
        return Lin.const(1 if x else 0)
    if isinstance(x, int):
        return Lin.const(x)
    if isinstance(x, tuple):
        return Lin.atom(x)
    raise Unsupported("not a scalar value: %r" % (x,))


def sym(name):
    return Lin.atom(("sym", name))


def show_atom(a):
    if isinstance(a, tuple):
        if not a or not isinstance(a[0], str):
            return "(" + ",".join(show(x) if isinstance(x, Lin) else show_atom(x) for x in a) + ")"
        if a[0] == "sym":
            return a[1]
        if a[0] == "mul":
            return "*".join(show_atom(x) for x in a[1])
        if a[0] == "wire":
            return "W%s(%s,%d)" % ("r" if a[3] else "", show(a[1]), a[2])
        return "%s(%s)" % (a[0], ",".join(show(x) if isinstance(x, Lin) else show_atom(x) if isinstance(x, tuple) else str(x) for x in a[1:]))
    return str(a)


def show(v):
    if isinstance(v, Lin):
        parts = []
        for a, c in v.terms:
            s = show_atom(a)
            if c == 1:
                parts.append("+" + s)
            elif c == -1:
                parts.append("-" + s)
            else:
                parts.append("%+d*%s" % (c, s))
        if v.k or not parts:
            parts.append("%+d" % v.k)
        r = "".join(parts)
        return r[1:] if r.startswith("+") else r
    if isinstance(v, Obj):
        return "%s{%s}" % (v.cls.split("::")[-1][:30], ",".join("%s=%s" % (k, show(x)) for k, x in sorted(v.fields.items())))
    if isinstance(v, Ptr):
        return "&" + show(v.target)
    if isinstance(v, Loc):
        return "loc(%s.%s)" % (getattr(v.obj, "name", "?"), v.key)
    if isinstance(v, tuple):
        return show_atom(v)
    return repr(v)


# boolean terms are Lin too: constants 0/1 or a single atom ('cmp', op, L) meaning L op 0
def cmp_term(op, a, b):
    d = lin(a) - lin(b)
    if d.is_const():
        k = d.k
        return Lin.const(1 if {"==": k == 0, "!=": k != 0, "<": k < 0, "<=": k <= 0, ">": k > 0, ">=": k >= 0}[op] else 0)
    if op == ">":
        op, d = "<", -d
    elif op == ">=":
        op, d = "<=", -d
    if op in ("==", "!="):
        # canonical sign: first coefficient positive
        if d.terms and d.terms[0][1] < 0:
            d = -d
    return Lin.atom(("cmp", op, d))


FLOAT_TYPES = ("float", "double", "long double")


def is_float_type(t):
    t = (t or "").replace("const ", "").replace("volatile ", "").strip()
    return t in FLOAT_TYPES


def fcmp_term(op, a, b):
    """comparison of floating-point operands: IEEE semantics (NaN is unordered), so neither the difference form nor
    the flip !(a < b) == (b <= a) of the integer domain applies; only a > b == b < a and the symmetry of ==, != do"""
    a, b = lin(a), lin(b)
    if op == ">":
        op, a, b = "<", b, a
    elif op == ">=":
        op, a, b = "<=", b, a
    if op in ("==", "!=") and show(b) < show(a):
        a, b = b, a
    if a == b and a.is_const():
        # a finite literal compared with itself (NaN is never a literal here: it is a call to quiet_NaN())
        return Lin.const(1 if op in ("==", "<=") else 0)
    return Lin.atom(("fcmp", op, a, b))


def negate_cond(c):
    c = lin(c)
    if c.is_const():
        return Lin.const(0 if c.k else 1)
    if len(c.terms) == 1 and c.k == 0 and c.terms[0][1] == 1:
        a = c.terms[0][0]
        if a[0] == "fcmp" and a[1] in ("==", "!="):
            return Lin.atom(("fcmp", "!=" if a[1] == "==" else "==", a[2], a[3]))
        if a[0] == "cmp":
            op, d = a[1], a[2]
            if op == "==":
                return Lin.atom(("cmp", "!=", d))
            if op == "!=":
                return Lin.atom(("cmp", "==", d))
            if op == "<":        # d < 0  ->  d >= 0  ->  -d <= 0
                return Lin.atom(("cmp", "<=", -d))
            if op == "<=":       # d <= 0 ->  d > 0   ->  -d < 0
                return Lin.atom(("cmp", "<", -d))
        if a[0] == "not":
            return a[1]
    return Lin.atom(("not", c))


def truthy(v):
    """bool conversion of an integer/pointer value."""
    v = lin(v)
    if v.is_const():
        return Lin.const(1 if v.k else 0)
    if len(v.terms) == 1 and v.k == 0 and v.terms[0][1] == 1 and v.terms[0][0][0] in ("cmp", "fcmp", "not", "and", "or", "bool"):
        return v
    return cmp_term("!=", v, 0)


# ---------------------------------------------------------------------- memory
class Obj:
    _n = 0

    def __init__(self, cls, name=None, symbolic=False):
        self.cls = cls
        self.fields = {}
        self.symbolic = symbolic      # unknown initial state: fields are symbols
        Obj._n += 1
        self.name = name or ("o%d" % Obj._n)

    def get(self, f, ex=None):
        if f not in self.fields:
            if self.symbolic:
                self.fields[f] = ex.symbolic_field(self, f) if ex else sym(self.name + "." + f)
            else:
                self.fields[f] = ("undef", self.name + "." + f)
        return self.fields[f]

    def clone(self, name=None):
        # a symbolic object keeps its identity: lazily created field symbols
        # must not depend on which copy is asked first
        o = Obj(self.cls, self.name if self.symbolic else (name or self.name), self.symbolic)
        for k, v in self.fields.items():
            o.fields[k] = v.clone() if isinstance(v, Obj) else v
        return o


class Loc:
    """an lvalue: field `key` of container obj (Obj or Frame var dict)"""
    __slots__ = ("obj", "key")

    def __init__(self, obj, key):
        self.obj, self.key = obj, key


class MemLoc:
    """lvalue inside the user buffer"""
    __slots__ = ("addr", "size", "t")

    def __init__(self, addr, size, t):
        self.addr, self.size, self.t = addr, size, t


class Ptr:
    """pointer to an Obj or Loc (not into the user buffer: those are Lin)"""
    __slots__ = ("target", "off")

    def __init__(self, target, off=0):
        self.target = target
        self.off = off


class Closure(Obj):
    pass


class Frame:
    def __init__(self, fn, this):
        self.fn = fn
        self.vars = {}
        self.this = this
        self.name = fn.get("name")


class Return(Exception):
    def __init__(self, v):
        self.v = v


class BreakLoop(Exception):
    pass


class ContinueLoop(Exception):
    pass


class AbortPath(Exception):
    pass


TYPE_SIZE = {"bool": 1, "char": 1, "signed char": 1, "unsigned char": 1, "short": 2, "unsigned short": 2,
             "int": 4, "unsigned int": 4, "long": 8, "unsigned long": 8, "long long": 8,
             "unsigned long long": 8, "float": 4, "double": 8, "std::byte": 1}


def type_size(t, ex=None):
    t = rint.clean(t)
    if t in TYPE_SIZE:
        return TYPE_SIZE[t]
    if t.endswith("*"):
        return 8
    if ex is not None and t in ex.enum_underlying:
        return type_size(ex.enum_underlying[t])
    return None


def pointee(t):
    t = rint.clean(t)
    if t.endswith("*"):
        return rint.clean(t[:-1])
    return None


class Path:
    _facts = None

    def __init__(self):
        self.events = []
        self.where = []
        self.pc = []
        self.ret = None
        self.post = {}
        self.aborted = False


class Exec:
    """one decision-replay run"""

    def __init__(self, eng, pre):
        self.eng = eng
        self.pre = pre
        self.taken = []
        self.known = {}
        self.path = Path()
        self.depth = 0
        self.fresh = 0
        self.loop_ctx = []
        self.mem = {}
        self.fstack = []
        self.epoch = 0
        self.stale = ()

    # ------------------------------------------------------------ decisions
    def decide(self, cond, why=""):
        cond = truthy(cond)
        if cond.is_const():
            return bool(cond.k)
        if cond in self.known:
            return self.known[cond]
        n = negate_cond(cond)
        if n in self.known:
            return not self.known[n]
        i = len(self.taken)
        d = self.pre[i] if i < len(self.pre) else True
        self.taken.append(d)
        self.known[cond] = d
        self.path.pc.append((cond, d))
        self.path.events.append(("assume", cond, d, why))
        self.path.where.append(tuple(self.fstack[-4:]))
        return d

    def assume(self, cond, val=True):
        cond = truthy(cond)
        if cond.is_const():
            return
        self.known[cond] = val
        self.path.events.append(("assume", cond, val, "loop"))
        self.path.where.append(tuple(self.fstack[-4:]))

    def event(self, *e):
        if e and e[0] == "write":
            self.note_write(e[1], e[2], e[3] if len(e) > 3 else None)
        self.path.events.append(tuple(e) + ((tuple(self.loop_ctx),) if self.loop_ctx else ()))
        self.path.where.append(tuple(self.fstack[-4:]))

    # ---- buffer memory: store-to-load forwarding for exact (address, length)
    # matches (the length prefix written by resize() and read back by size());
    # any write that is not provably disjoint forgets the cell.
    def note_write(self, addr, ln, data):
        addr, ln = lin(addr), lin(ln)
        dead = []
        for (a, n) in self.mem:
            d = addr - a
            disjoint = False
            if d.is_const():
                disjoint = d.k >= n or (ln.is_const() and d.k + ln.k <= 0)
            elif d.k >= n and all(c > 0 and _nonneg_atom(at) for at, c in d.terms):
                disjoint = True
            if not disjoint:
                dead.append((a, n))
        for k in dead:
            del self.mem[k]
            self.epoch += 1
        if ln.is_const() and isinstance(data, Lin):
            self.mem[(addr, ln.k)] = data

    def wire(self, addr, n, rev):
        """value of the n bytes at addr (native order unless rev)"""
        addr = lin(addr)
        if n == 1:
            rev = False
        v = self.mem.get((addr, n))
        if v is not None:
            from symeng import bswap_val
            return bswap_val(v, n) if rev else v
        if self.epoch:
            # some earlier write may have changed these bytes
            for (a, k) in list(self.stale):
                pass
        return Lin.atom(("wire", addr, n, rev))

    def newsym(self, base):
        self.fresh += 1
        return sym("%s#%d" % (base, self.fresh))

    def symbolic_field(self, obj, f):
        # class-type fields of symbolic objects become symbolic sub-objects
        ft = self.eng.field_type(obj.cls, f)
        if ft and self.eng.is_class(ft):
            return Obj(rint.clean(ft), obj.name + "." + f, symbolic=True)
        if ft and rint.clean(ft).endswith("*") and self.eng.is_class(pointee(ft)):
            return Ptr(Obj(pointee(ft), obj.name + "." + f + "->", symbolic=True))
        return sym(obj.name + "." + f)

    # --------------------------------------------------------------- memory
    def load(self, loc):
        if isinstance(loc, Loc):
            if isinstance(loc.obj, Obj):
                return loc.obj.get(loc.key, self)
            if loc.key not in loc.obj:
                raise Unsupported("read of unset variable %s" % (loc.key,))
            return loc.obj[loc.key]
        if isinstance(loc, MemLoc):
            self.event("read", loc.addr, lin(loc.size))
            return self.wire(loc.addr, loc.size, False)
        if isinstance(loc, Obj):
            return loc
        raise Unsupported("load from %r" % (loc,))

    def store(self, loc, v):
        if isinstance(v, Obj):
            v = v.clone()
        if isinstance(loc, Loc):
            if isinstance(loc.obj, Obj):
                loc.obj.fields[loc.key] = v
            else:
                loc.obj[loc.key] = v
            return
        if isinstance(loc, MemLoc):
            self.event("write", loc.addr, lin(loc.size), v)
            return
        if isinstance(loc, Obj) and isinstance(v, Obj):
            loc.fields = dict(v.fields)
            loc.symbolic = v.symbolic
            return
        raise Unsupported("store to %r" % (loc,))

    # ------------------------------------------------------------ expression
    def rvalue(self, n, fr):
        v = self.eval(n, fr)
        if isinstance(v, (Loc, MemLoc)):
            return self.load(v)
        return v

    def lvalue(self, n, fr):
        v = self.eval(n, fr)
        if isinstance(v, (Loc, MemLoc, Obj)):
            return v
        raise Unsupported("expected lvalue at line %s (%s)" % (n.get("l"), n.get("k")))

    def eval(self, n, fr):
        self.eng.steps += 1
        if self.eng.steps > self.eng.step_limit:
            raise PathLimit("step budget exhausted")
        k = n["k"]
        if "cv" in n and k != "CXXConstructExpr":
            return Lin.const(int(n["cv"]))
        m = getattr(self, "e_" + k, None)
        if m is None:
            raise Unsupported("expression kind %s at line %s" % (k, n.get("l")))
        return m(n, fr)

    def e_FloatingLiteral(self, n, fr):
        return Lin.atom(("float", n.get("fv")))

    def e_StringLiteral(self, n, fr):
        return Lin.atom(("strlit", n.get("str")))

    def e_CXXThisExpr(self, n, fr):
        if fr.this is None:
            raise Unsupported("`this` without object at line %s" % n.get("l"))
        return Ptr(fr.this)

    def e_DeclRefExpr(self, n, fr):
        dk = n.get("dk")
        if dk in ("ParmVar", "Var", "Decomposition", "Binding"):
            did = n.get("did")
            if n.get("global"):
                return self.eng.global_value(n, self)
            f = fr
            if did not in f.vars:
                # lambda capture by copy / reference of an enclosing local
                if fr.this is not None and isinstance(fr.this, Closure) and ("cap:%s" % n.get("name")) in fr.this.fields:
                    v = fr.this.fields["cap:%s" % n.get("name")]
                    return v if isinstance(v, (Loc, MemLoc, Obj)) else Loc(fr.this.fields, "cap:%s" % n.get("name"))
                raise Unsupported("unknown variable %s at line %s" % (n.get("name"), n.get("l")))
            v = f.vars[did]
            if isinstance(v, RefBox):
                return v.target
            if isinstance(v, Obj):
                return v
            return Loc(f.vars, did)
        if dk == "EnumConstant":
            return Lin.const(int(n.get("cv", "0")))
        if dk in ("Function", "CXXMethod"):
            return ("fn", n.get("fn"))
        raise Unsupported("DeclRef kind %s" % dk)

    def obj_of(self, v, n):
        if isinstance(v, Obj):
            return v
        if isinstance(v, Loc):
            x = self.load(v)
            if isinstance(x, Obj):
                return x
            if isinstance(x, Ptr):
                return x
        if isinstance(v, Ptr):
            return v
        raise Unsupported("expected object at line %s, got %r" % (n.get("l"), v))

    def deref_ptr(self, p, n):
        if isinstance(p, Ptr):
            return p.target
        raise Unsupported("deref of %r at line %s" % (p, n.get("l")))

    def e_MemberExpr(self, n, fr):
        base = n.get("base")
        if n.get("dk") in ("CXXMethod", "CXXConstructor", "CXXConversion", "CXXDestructor"):
            return ("method", n.get("fn"), base)
        if n.get("arrow"):
            p = self.rvalue(base, fr)
            o = self.deref_ptr(p, n)
        else:
            o = self.eval(base, fr)
            if isinstance(o, Loc):
                o = self.load(o)
        if isinstance(o, Loc):
            o = self.load(o)
        if not isinstance(o, Obj):
            raise Unsupported("member %s of non-object %r line %s" % (n.get("name"), o, n.get("l")))
        name = n["name"]
        v = o.get(name, self)
        if isinstance(v, RefBox):
            return v.target
        if isinstance(v, Obj):
            return v
        return Loc(o, name)

    def cast_int(self, v, frm, to, n):
        """integral conversion of a scalar value"""
        if not isinstance(v, Lin):
            return v
        fr_r, to_r = rint.trange(frm, self.eng.enum_underlying), rint.trange(to, self.eng.enum_underlying)
        if to_r is None or fr_r is None:
            return v
        if v.is_const():
            k = v.k
            w = rint.int_info(to, self.eng.enum_underlying)
            if w and not (to_r[0] <= k <= to_r[1]):
                bits = w[0]
                k &= (1 << bits) - 1
                if w[1] and k >= (1 << (bits - 1)):
                    k -= 1 << bits
            return Lin.const(k)
        if fr_r[0] >= to_r[0] and fr_r[1] <= to_r[1]:
            return v
        fi, ti = rint.int_info(frm, self.eng.enum_underlying), rint.int_info(to, self.eng.enum_underlying)
        if fi and ti and fi[0] == ti[0]:
            # same width sign change: same bits; keep linear form (modular), tag nothing
            return v
        if fi and ti and fi[0] >= 64 and ti[0] >= 64:
            return v
        if ti and fi and ti[0] > fi[0]:
            # widening of a signed value into a wider unsigned: modular, keep
            return v
        return Lin.atom(("cast", rint.clean(to), v))

    def e_cast(self, n, fr):
        ck = n.get("ck")
        sub = n["sub"]
        if ck == "LValueToRValue":
            v = self.eval(sub, fr)
            if isinstance(v, (Loc, MemLoc)):
                return self.load(v)
            return v
        if ck in ("NoOp", "DerivedToBase", "UncheckedDerivedToBase", "BaseToDerived", "ConstructorConversion",
                  "FunctionToPointerDecay", "BuiltinFnToFnPtr", "UserDefinedConversion", "BitCast", "Dependent"):
            return self.eval(sub, fr)
        if ck == "ArrayToPointerDecay":
            v = self.eval(sub, fr)
            if isinstance(v, Lin):
                return v
            if isinstance(v, Loc):
                x = self.load(v)
                if isinstance(x, Obj):
                    return Ptr(x, 0)
                return Ptr(v, 0)
            if isinstance(v, Obj):
                return Ptr(v, 0)
            return v
        if ck in ("IntegralCast", "BooleanToSignedIntegral"):
            return self.cast_int(self.rvalue(sub, fr), n.get("from"), n.get("t"), n)
        if ck in ("IntegralToBoolean", "PointerToBoolean"):
            v = self.rvalue(sub, fr)
            if isinstance(v, Ptr):
                return Lin.const(1)
            return truthy(v)
        if ck == "NullToPointer":
            return Lin.const(0)
        if ck in ("IntegralToFloating", "FloatingCast", "FloatingToIntegral", "FloatingToBoolean"):
            v = self.rvalue(sub, fr)
            return Lin.atom(("cast", rint.clean(n.get("t")), lin(v)))
        if ck == "ToVoid":
            self.eval(sub, fr)
            return None
        if ck == "IntegralToPointer" or ck == "PointerToIntegral":
            return self.rvalue(sub, fr)
        raise Unsupported("cast kind %s at line %s" % (ck, n.get("l")))

    e_ImplicitCastExpr = e_cast
    e_CStyleCastExpr = e_cast
    e_CXXStaticCastExpr = e_cast
    e_CXXFunctionalCastExpr = e_cast
    e_CXXReinterpretCastExpr = e_cast
    e_CXXConstCastExpr = e_cast

    def e_UnaryOperator(self, n, fr):
        op = n["op"]
        sub = n["sub"]
        if op == "*":
            p = self.rvalue(sub, fr)
            if isinstance(p, Ptr):
                t = p.target
                if isinstance(t, Obj) and t.cls.startswith("array:"):
                    return Loc(t, "[%d]" % p.off)
                return t
            if isinstance(p, Lin):
                sz = type_size(n.get("t"), self)
                if sz is None:
                    raise Unsupported("deref to type %s" % n.get("t"))
                return MemLoc(p, sz, rint.clean(n.get("t")))
            raise Unsupported("deref of %r" % (p,))
        if op == "&":
            v = self.eval(sub, fr)
            if isinstance(v, MemLoc):
                return v.addr
            if isinstance(v, (Loc, Obj)):
                return Ptr(v)
            raise Unsupported("address of %r" % (v,))
        if op in ("++", "--"):
            loc = self.lvalue(sub, fr)
            old = self.load(loc)
            step = 1
            if isinstance(old, Lin) and pointee(sub.get("t")):
                step = type_size(pointee(sub.get("t")), self) or 1
            if isinstance(old, Ptr):
                new = Ptr(old.target, old.off + (1 if op == "++" else -1))
            else:
                new = lin(old) + (step if op == "++" else -step)
            self.store(loc, new)
            if n.get("postfix"):
                return old
            return loc
        v = self.rvalue(sub, fr)
        if op == "-":
            return -lin(v)
        if op == "+":
            return v
        if op == "!":
            return negate_cond(truthy(v))
        if op == "~":
            v = lin(v)
            if v.is_const():
                return Lin.const(~v.k)
            return Lin.atom(("bitnot", v, rint.clean(n.get("t"))))
        raise Unsupported("unary %s" % op)

    def arith(self, op, a, b, n):
        if op in ("+", "-") and (isinstance(a, Ptr) or isinstance(b, Ptr)):
            if isinstance(a, Ptr) and isinstance(b, Ptr) and op == "-":
                if a.target is b.target:
                    return Lin.const(a.off - b.off)
                raise Unsupported("difference of unrelated pointers")
            if isinstance(a, Ptr):
                d = lin(b)
                if not d.is_const():
                    return ("symptr", a.target, lin(a.off) + (d if op == "+" else -d))
                return Ptr(a.target, a.off + (d.k if op == "+" else -d.k))
            d = lin(a)
            return Ptr(b.target, b.off + d.k)
        if isinstance(a, tuple) and a and a[0] == "symptr" or isinstance(b, tuple) and b and b[0] == "symptr":
            if op == "-" and isinstance(a, tuple) and isinstance(b, Ptr) and a[1] is b.target:
                return a[2] - b.off
            if op == "-" and isinstance(a, tuple) and isinstance(b, tuple) and a[1] is b[1]:
                return a[2] - b[2]
            raise Unsupported("symbolic local pointer arithmetic")
        a, b = lin(a), lin(b)
        if op == "+":
            return a + b
        if op == "-":
            return a - b
        if op == "*":
            return a * b
        if a.is_const() and b.is_const():
            x, y = a.k, b.k
            try:
                return Lin.const({"/": lambda: int(x / y) if y else 0, "%": lambda: x - int(x / y) * y if y else 0,
                                  "<<": lambda: x << y, ">>": lambda: x >> y, "&": lambda: x & y,
                                  "|": lambda: x | y, "^": lambda: x ^ y}[op]())
            except Exception:
                pass
        return Lin.atom(("bin", op, a, b, rint.clean(n.get("t")) if n else ""))

    def e_BinaryOperator(self, n, fr):
        op = n["op"]
        if op == ",":
            self.eval(n["lhs"], fr)
            return self.eval(n["rhs"], fr)
        if op == "&&":
            a = truthy(self.scalar(self.rvalue(n["lhs"], fr)))
            if a.is_const():
                if not a.k:
                    return Lin.const(0)
                return truthy(self.scalar(self.rvalue(n["rhs"], fr)))
            if self.in_assert:
                b = truthy(self.scalar(self.rvalue(n["rhs"], fr)))
                if b.is_const():
                    return a if b.k else Lin.const(0)
                return Lin.atom(("and", a, b))
            if self.decide(a, "&& line %s" % n.get("l")):
                return truthy(self.scalar(self.rvalue(n["rhs"], fr)))
            return Lin.const(0)
        if op == "||":
            a = truthy(self.scalar(self.rvalue(n["lhs"], fr)))
            if a.is_const():
                if a.k:
                    return Lin.const(1)
                return truthy(self.scalar(self.rvalue(n["rhs"], fr)))
            if self.in_assert:
                b = truthy(self.scalar(self.rvalue(n["rhs"], fr)))
                if b.is_const():
                    return Lin.const(1) if b.k else a
                return Lin.atom(("or", a, b))
            if self.decide(a, "|| line %s" % n.get("l")):
                return Lin.const(1)
            return truthy(self.scalar(self.rvalue(n["rhs"], fr)))
        if op == "=":
            loc = self.lvalue(n["lhs"], fr)
            v = self.rvalue(n["rhs"], fr)
            self.store(loc, v)
            return loc
        a = self.rvalue(n["lhs"], fr)
        b = self.rvalue(n["rhs"], fr)
        if op in ("==", "!=", "<", "<=", ">", ">="):
            if isinstance(a, Ptr) or isinstance(b, Ptr):
                if isinstance(a, Ptr) and isinstance(b, Ptr) and a.target is b.target:
                    return cmp_term(op, a.off, b.off)
                if isinstance(a, Ptr) and isinstance(b, Lin) and b.is_const() and b.k == 0:
                    return Lin.const(1 if op == "!=" else 0)
                if isinstance(b, Ptr) and isinstance(a, Lin) and a.is_const() and a.k == 0:
                    return Lin.const(1 if op == "!=" else 0)
                raise Unsupported("pointer comparison line %s" % n.get("l"))
            if isinstance(a, tuple) and a and a[0] == "symptr" or isinstance(b, tuple) and b and b[0] == "symptr":
                la = a[2] if isinstance(a, tuple) else lin(a.off)
                lb = b[2] if isinstance(b, tuple) else lin(b.off)
                return cmp_term(op, la, lb)
            if is_float_type(n["lhs"].get("t")) or is_float_type(n["rhs"].get("t")):
                return fcmp_term(op, self.scalar(a), self.scalar(b))
            return cmp_term(op, self.scalar(a), self.scalar(b))
        if op == "<=>":
            return Lin.atom(("spaceship", lin(self.scalar(a)), lin(self.scalar(b))))
        # pointer arithmetic scaling
        lt, rt = n["lhs"].get("t"), n["rhs"].get("t")
        if op in ("+", "-") and isinstance(a, Lin) and isinstance(b, Lin):
            pl, pr = pointee(lt), pointee(rt)
            if pl and not pr:
                b = b.scale(type_size(pl, self) or 1)
            elif pr and not pl:
                a = a.scale(type_size(pr, self) or 1)
            elif pl and pr and op == "-":
                s = type_size(pl, self) or 1
                d = a - b
                if s != 1:
                    return Lin.atom(("bin", "/", d, Lin.const(s), "long"))
                return d
        return self.arith(op, a, b, n)

    def scalar(self, v):
        if isinstance(v, Obj):
            # scoped/enum wrappers etc. are scalars; objects with a single field 'val'
            raise Unsupported("object used as scalar: %s" % v.cls)
        return v

    def e_CompoundAssignOperator(self, n, fr):
        op = n["op"][:-1]
        loc = self.lvalue(n["lhs"], fr)
        old = self.load(loc)
        b = self.rvalue(n["rhs"], fr)
        if isinstance(old, Lin) and isinstance(b, Lin) and pointee(n["lhs"].get("t")) and op in ("+", "-"):
            b = b.scale(type_size(pointee(n["lhs"].get("t")), self) or 1)
        # the computation happens in comp_res_t
        if isinstance(old, Lin):
            old_c = self.cast_int(old, n["lhs"].get("t"), n.get("comp_lhs_t"), n) if not pointee(n["lhs"].get("t")) else old
        else:
            old_c = old
        new = self.arith(op, old_c, b, n)
        if isinstance(new, Lin) and not pointee(n["lhs"].get("t")):
            new = self.cast_int(new, n.get("comp_res_t"), n["lhs"].get("t"), n)
        self.store(loc, new)
        return loc

    in_assert = False

    def e_ConditionalOperator(self, n, fr):
        # SBEPP_ASSERT(expr):  static_cast<bool>(expr) ? (void)0 : assertion_failed(...)
        els = n.get("else")
        if els is not None and is_assert_fail(els):
            old = self.in_assert
            self.in_assert = True
            try:
                c = truthy(self.scalar(self.rvalue(n["cond"], fr)))
            finally:
                self.in_assert = old
            self.event("assert", c, n.get("l"), tuple(n.get("mac") or ()))
            if c.is_const() and not c.k:
                self.event("abort")
                raise AbortPath()
            self.known[c] = True
            for sub in conj_parts(c):
                self.known[sub] = True
            return None
        c = truthy(self.scalar(self.rvalue(n["cond"], fr)))
        if self.decide(c, "?: line %s" % n.get("l")):
            return self.eval(n["then"], fr)
        return self.eval(n["else"], fr)

    def e_ArraySubscriptExpr(self, n, fr):
        b = self.rvalue(n["base"], fr)
        i = self.rvalue(n["idx"], fr)
        if isinstance(b, Lin):
            sz = type_size(n.get("t"), self)
            if sz is None:
                raise Unsupported("subscript element type %s" % n.get("t"))
            return MemLoc(b + lin(i).scale(sz), sz, rint.clean(n.get("t")))
        if isinstance(b, Ptr):
            i = lin(i)
            if i.is_const() and isinstance(b.target, Obj):
                return Loc(b.target, "[%d]" % (b.off + i.k))
        raise Unsupported("subscript of %r" % (b,))

    def e_UnaryExprOrTypeTraitExpr(self, n, fr):
        raise Unsupported("non-constant sizeof")

    def e_CXXNullPtrLiteralExpr(self, n, fr):
        return Lin.const(0)

    def e_InitListExpr(self, n, fr):
        t = rint.clean(n.get("t"))
        inits = n.get("inits") or []
        if not self.eng.is_class(t):
            if not inits:
                return Lin.const(0)
            return self.rvalue(inits[0], fr)
        rec = self.eng.record(t)
        o = Obj(t)
        if t.startswith("std::array<"):
            o.cls = "array:" + t
            for i, x in enumerate(inits):
                o.fields["[%d]" % i] = self.rvalue(x, fr)
            return o
        flds = [f["name"] for f in rec["fields"]] if rec else []
        bases = rec["bases"] if rec else []
        idx = 0
        for x in inits[:]:
            if idx < len(bases):
                # aggregate base initialisation
                v = self.rvalue(x, fr)
                if isinstance(v, Obj):
                    o.fields.update(v.fields)
                idx += 1
                continue
            fi = idx - len(bases)
            if fi < len(flds):
                o.fields[flds[fi]] = self.rvalue(x, fr)
            idx += 1
        return o

    def e_CXXStdInitializerListExpr(self, n, fr):
        arr = self.rvalue(n["sub"], fr)
        o = Obj("ilist")
        o.fields["arr"] = arr
        cnt = len([k for k in arr.fields]) if isinstance(arr, Obj) else 0
        o.fields["n"] = Lin.const(cnt)
        return o

    def e_CXXScalarValueInitExpr(self, n, fr):
        t = rint.clean(n.get("t"))
        if self.eng.is_class(t):
            return self.eng.default_object(t, self, fr)
        return Lin.const(0)

    def e_ImplicitValueInitExpr(self, n, fr):
        return self.e_CXXScalarValueInitExpr(n, fr)

    def e_LambdaExpr(self, n, fr):
        c = Closure("closure")
        c.fields["__callop"] = n.get("callop")
        for cap, init in itertools.zip_longest(n.get("captures") or [], n.get("capinits") or []):
            if cap.get("this"):
                c.fields["__this"] = fr.this
            elif cap.get("name"):
                if cap.get("byref"):
                    c.fields["cap:" + cap["name"]] = self.eval(init, fr) if init else None
                else:
                    c.fields["cap:" + cap["name"]] = self.rvalue(init, fr) if init else None
        return c

    def e_CXXConstructExpr(self, n, fr):
        return self.eng.construct(self, n, fr, None)

    e_CXXTemporaryObjectExpr = e_CXXConstructExpr

    def e_CallExpr(self, n, fr):
        return self.eng.call(self, n, fr)

    e_CXXMemberCallExpr = e_CallExpr
    e_CXXOperatorCallExpr = e_CallExpr

    def e_CXXRewrittenBinaryOperator(self, n, fr):
        return self.eval(n["sub"], fr)

    def e_CXXThrowExpr(self, n, fr):
        self.event("throw")
        raise AbortPath()

    # ------------------------------------------------------------ statements
    def exec(self, n, fr):
        if n is None:
            return
        k = n["k"]
        m = getattr(self, "s_" + k, None)
        if m is not None:
            return m(n, fr)
        if "t" in n or k.endswith("Expr") or k.endswith("Operator"):
            self.eval(n, fr)
            return
        raise Unsupported("statement kind %s at line %s" % (k, n.get("l")))

    def s_CompoundStmt(self, n, fr):
        for c in n.get("c") or []:
            self.exec(c, fr)

    def s_NullStmt(self, n, fr):
        pass

    def s_DeclStmt(self, n, fr):
        for d in n.get("decls") or []:
            if d.get("k") != "VarDecl":
                continue
            self.declare(d, fr)

    def declare(self, d, fr):
        did = d["did"]
        t = rint.clean(d.get("t"))
        init = d.get("init")
        if d.get("ref"):
            v = self.eval(init, fr)
            if isinstance(v, (Loc, MemLoc, Obj)):
                fr.vars[did] = RefBox(v)
            else:
                # reference to temporary
                fr.vars[did] = v
            return
        if init is None:
            if self.eng.is_class(t):
                fr.vars[did] = self.eng.default_object(t, self, fr)
            else:
                fr.vars[did] = ("undef", d.get("name"))
            return
        if init.get("k") in ("CXXConstructExpr", "CXXTemporaryObjectExpr") and self.eng.is_class(t):
            v = self.eng.construct(self, init, fr, None)
        else:
            v = self.rvalue(init, fr)
        if isinstance(v, Obj):
            v = v.clone(d.get("name"))
        fr.vars[did] = v

    def s_ReturnStmt(self, n, fr):
        sub = n.get("sub")
        if sub is None:
            raise Return(None)
        if fr.fn.get("retref"):
            v = self.eval(sub, fr)
            raise Return(v)
        v = self.rvalue(sub, fr)
        if isinstance(v, Obj):
            v = v.clone()
        raise Return(v)

    def s_IfStmt(self, n, fr):
        if n.get("init"):
            self.exec(n["init"], fr)
        if n.get("condvar"):
            self.declare(n["condvar"], fr)
        c = self.rvalue(n["cond"], fr)
        if isinstance(c, Ptr):
            c = Lin.const(1)
        if self.decide(truthy(self.scalar(c)), "if line %s" % n.get("l")):
            self.exec(n.get("then"), fr)
        else:
            self.exec(n.get("else"), fr)

    def s_SwitchStmt(self, n, fr):
        v = self.scalar(self.rvalue(n["cond"], fr))
        body = n.get("body") or {}
        stmts = body.get("c") or []
        start = None
        default_i = None
        for i, st in enumerate(stmts):
            cur = st
            while cur is not None and cur.get("k") in ("CaseStmt", "DefaultStmt"):
                if cur["k"] == "DefaultStmt":
                    default_i = i
                else:
                    cv = self.rvalue(cur["lhs"], fr)
                    if self.decide(cmp_term("==", v, cv), "case line %s" % cur.get("l")):
                        start = i
                        break
                cur = cur.get("sub")
            if start is not None:
                break
        if start is None:
            start = default_i
        if start is None:
            return
        try:
            for st in stmts[start:]:
                cur = st
                while cur is not None and cur.get("k") in ("CaseStmt", "DefaultStmt"):
                    cur = cur.get("sub")
                self.exec(cur, fr)
        except BreakLoop:
            pass

    def s_BreakStmt(self, n, fr):
        raise BreakLoop()

    def s_ContinueStmt(self, n, fr):
        raise ContinueLoop()

    # loops: zero iterations, or one generic iteration over havocked state
    def loop(self, n, fr, cond, inc, body, pre_body=None):
        lid = "L%s" % n.get("l")
        if cond is not None:
            c0 = truthy(self.scalar(self.rvalue(cond, fr)))
            if not self.decide(c0, "loop-entry line %s" % n.get("l")):
                return
        mod = modified_roots(self.eng, body, inc)
        self.havoc(mod, fr, lid + ".k")
        self.loop_ctx.append(lid)
        self.event("loop-begin", lid)
        if cond is not None:
            self.assume(self.rvalue(cond, fr), True)
        snap = self.snapshot(mod, fr)
        try:
            if pre_body is not None:
                self.exec(pre_body, fr)
            try:
                self.exec(body, fr)
            except ContinueLoop:
                pass
            if inc is not None:
                self.eval(inc, fr)
            broke = False
        except BreakLoop:
            broke = True
        finally:
            self.loop_ctx.pop()
        # what one generic iteration does to the loop-carried scalars (before -> after)
        for nm, before in snap.items():
            after = self.snapshot(mod, fr).get(nm)
            if isinstance(before, Lin) and isinstance(after, Lin) and before != after:
                self.event("iter", lid, nm, before, after)
        self.event("loop-end", lid)
        self.havoc(mod, fr, lid + ".end")
        if cond is not None and not broke:
            c1 = self.rvalue(cond, fr)
            self.assume(negate_cond(truthy(self.scalar(c1))), True)

    def s_ForStmt(self, n, fr):
        if n.get("init"):
            self.exec(n["init"], fr)
        self.loop(n, fr, n.get("cond"), n.get("inc"), n.get("body"))

    def s_WhileStmt(self, n, fr):
        self.loop(n, fr, n.get("cond"), None, n.get("body"))

    def s_CXXForRangeStmt(self, n, fr):
        self.exec(n.get("rangestmt"), fr)
        self.exec(n.get("beginstmt"), fr)
        self.exec(n.get("endstmt"), fr)
        self.loop(n, fr, n.get("cond"), n.get("inc"), n.get("body"), pre_body=n.get("loopvar"))

    def snapshot(self, roots, fr):
        """current values of the loop-carried scalar locals / fields"""
        out = {}
        for (did, name), fields in roots.items():
            if did == "this":
                o = fr.this
                if isinstance(o, Obj):
                    for f, v in o.fields.items():
                        if isinstance(v, Lin):
                            out["this." + f] = v
                continue
            v = fr.vars.get(did)
            if isinstance(v, RefBox):
                v = v.target
                if isinstance(v, Loc):
                    try:
                        v = self.load(v)
                    except Unsupported:
                        continue
            if isinstance(v, Lin):
                out[name] = v
            elif isinstance(v, Obj):
                for f, x in v.fields.items():
                    if isinstance(x, Lin):
                        out[name + "." + f] = x
        return out

    def havoc(self, roots, fr, tag):
        for (did, name), fields in roots.items():
            if did == "this":
                o = fr.this
                if isinstance(o, Obj):
                    self.havoc_obj(o, "this@" + tag, fields)
                continue
            if did not in fr.vars:
                continue
            v = fr.vars[did]
            if isinstance(v, RefBox):
                t = v.target
                if isinstance(t, Obj):
                    self.havoc_obj(t, name + "@" + tag, fields)
                elif isinstance(t, Loc):
                    old = self.load(t)
                    if isinstance(old, Obj):
                        self.havoc_obj(old, name + "@" + tag, fields)
                    elif isinstance(old, Lin):
                        self.store(t, sym(name + "@" + tag))
                continue
            if isinstance(v, Obj):
                self.havoc_obj(v, name + "@" + tag, fields)
            elif isinstance(v, Lin):
                fr.vars[did] = sym(name + "@" + tag)
            elif isinstance(v, Ptr):
                if isinstance(v.target, Obj):
                    self.havoc_obj(v.target, name + "->@" + tag, fields)

    def havoc_obj(self, o, tag, fields=None):
        """forget the fields that may have been modified (all when unknown)"""
        every = fields is None or ALL in fields
        names = set()
        ptrs = set()
        if not every:
            for f in fields:
                if f.endswith("->"):
                    ptrs.add(f[:-2].rstrip("-").rstrip(">").rstrip("-"))
                    ptrs.add(f.split("->")[0])
                else:
                    names.add(f)
        for f, v in list(o.fields.items()):
            if isinstance(v, Lin):
                if every or f in names:
                    o.fields[f] = sym("%s.%s" % (tag, f))
            elif isinstance(v, Obj):
                if every or f in names:
                    self.havoc_obj(v, tag + "." + f)
            elif isinstance(v, Ptr) and isinstance(v.target, Obj) and not isinstance(v.target, Closure):
                if every or f in ptrs or f in names:
                    self.havoc_obj(v.target, tag + "." + f + "->")


def _nonneg_atom(a):
    if a[0] in ("wire", "strlen", "distance"):
        return True
    if a[0] == "cast":
        return a[1].startswith("unsigned")
    if a[0] == "mul":
        return all(_nonneg_atom(x) for x in a[1])
    if a[0] == "sym":
        return a[1] in ("pos", "count") or a[1].split("#")[0] in ("pos", "count")
    return False


class RefBox:
    __slots__ = ("target",)

    def __init__(self, t):
        self.target = t


def conj_parts(c):
    out = []
    if isinstance(c, Lin) and len(c.terms) == 1 and c.k == 0:
        a = c.terms[0][0]
        if a[0] == "and":
            out += conj_parts(a[1]) + conj_parts(a[2])
        else:
            out.append(c)
    return out


def is_assert_fail(n):
    for x in walk(n):
        c = x.get("callee")
        if c and c.get("name") in ("assertion_failed", "__assert_fail"):
            return True
    return False


ALL = "*"


def _chain(e):
    """(root, first field) of an lvalue expression: root is ('this',) / ('var', did, name) / None"""
    field = None
    while e is not None:
        k = e.get("k")
        if k == "DeclRefExpr" and "did" in e:
            return ("var", e["did"], e.get("name")), field
        if k == "CXXThisExpr":
            return ("this",), field
        if k == "MemberExpr":
            if e.get("dk") == "Field":
                field = e.get("name") + ("->" if False else "")
            b = e.get("base")
            if b is None:
                return ("this",), field
            if e.get("arrow") and b.get("k") != "CXXThisExpr" and e.get("dk") == "Field":
                # p->f: modifies the pointee of p
                r, f0 = _chain(b)
                return r, (f0 + "->") if f0 else ALL
            e = b
            continue
        if k in ("ImplicitCastExpr", "CStyleCastExpr", "CXXStaticCastExpr", "ArraySubscriptExpr"):
            e = e.get("sub") or e.get("base")
            continue
        if k == "UnaryOperator":
            if e.get("op") == "*":
                r, f0 = _chain(e.get("sub"))
                return r, (f0 + "->") if f0 else ALL
            e = e.get("sub")
            continue
        if k in ("CXXMemberCallExpr", "CXXOperatorCallExpr"):
            # reference-returning accessor (c.pointer() = ...): unknown field of the object
            o = e.get("obj")
            if o is None:
                return None, None
            r, f0 = _chain(o)
            if e.get("arrow") and f0:
                return r, f0 + "->"
            return r, (f0 if f0 else ALL)
        return None, None
    return None, None


def _add(d, root, field):
    if root is None:
        return
    cur = d.setdefault(root, set())
    if field is None or field == ALL:
        cur.add(ALL)
    else:
        cur.add(field)


def mod_summary(eng, fn, stack=()):
    """what a function may modify: {('this',): fields, ('param', i): fields}"""
    key = fn.get("key")
    memo = eng.__dict__.setdefault("_mods", {})
    if key in memo:
        return memo[key]
    if key in stack or len(stack) > 12:
        return {}
    pidx = {p["did"]: i for i, p in enumerate(fn.get("params") or [])}
    raw = {}
    if fn.get("body") is not None:
        _collect_mods(eng, fn["body"], raw, stack + (key,))
    out = {}
    for root, fields in raw.items():
        if root == ("this",):
            out.setdefault(("this",), set()).update(fields)
        elif root[0] == "var" and root[1] in pidx:
            out.setdefault(("param", pidx[root[1]]), set()).update(fields)
    memo[key] = out
    return out


def _collect_mods(eng, node, out, stack):
    for x in walk(node):
        k = x.get("k")
        if (k == "BinaryOperator" and x.get("op") == "=") or k == "CompoundAssignOperator":
            r, f = _chain(x.get("lhs"))
            _add(out, r, f)
        elif k == "UnaryOperator" and x.get("op") in ("++", "--"):
            r, f = _chain(x.get("sub"))
            _add(out, r, f)
        elif k in ("CXXMemberCallExpr", "CXXOperatorCallExpr", "CallExpr", "CXXConstructExpr"):
            c = x.get("callee") or {}
            cal = eng.fns.get(c.get("key")) if c else None
            cm = mod_summary(eng, cal, stack) if cal is not None else None
            o = x.get("obj")
            if o is not None:
                r, f = _chain(o)
                if x.get("arrow") and f:
                    f = f + "->"
                if cm is None:
                    # unknown callee: const methods do not modify
                    if not (cal is None and c.get("name") in ("size", "empty", "begin", "end", "value", "count", "find", "data", "operator bool", "has_value")):
                        if cal is None and not c.get("hasbody", True) is False:
                            pass
                    if cal is None and c and not c.get("static"):
                        # external method: assume it may modify the object unless obviously const
                        nm = c.get("name", "")
                        if nm.startswith("operator") and nm not in ("operator=", "operator+=", "operator-=", "operator++", "operator--"):
                            pass
                        elif nm in ("size", "empty", "begin", "end", "value", "data", "has_value", "length", "c_str"):
                            pass
                        else:
                            _add(out, r, f if f else ALL)
                else:
                    for fld in cm.get(("this",), ()):
                        if f is None:
                            _add(out, r, fld)
                        else:
                            _add(out, r, f)
            args = x.get("args") or []
            for i, a in enumerate(args):
                if not a.get("lv"):
                    continue
                r, f = _chain(a)
                if r is None:
                    continue
                if cm is None:
                    if cal is None and c:
                        ps = None
                        # external function taking a reference: assume modification unless the argument is const
                        if "const" not in (a.get("t") or "")[:6]:
                            _add(out, r, f if f else ALL)
                    continue
                pm = cm.get(("param", i))
                if pm:
                    if f is None:
                        for fld in pm:
                            _add(out, r, fld)
                    else:
                        _add(out, r, f)
        elif k == "LambdaExpr":
            pass


def modified_roots(eng, *nodes):
    """{(did, name): set of fields or {'*'}} possibly modified inside the AST nodes"""
    raw = {}
    for n in nodes:
        if n is not None:
            _collect_mods(eng, n, raw, ())
    out = {}
    for root, fields in raw.items():
        if root == ("this",):
            out[("this", "this")] = fields
        elif root[0] == "var":
            out[(root[1], root[2])] = fields
    return out

#!/usr/bin/env python3
"""Entry point of every check:  python3 sa/run.py <Cnn> [--tier quick|thorough]
                                python3 sa/run.py <Cnn> --replay <violation.json>
Exit 0 held / 1 VIOLATION / 2 analysis broken."""
import argparse
import importlib
import json
import os
import sys
import traceback

sys.path.insert(0, os.path.dirname(os.path.abspath(__file__)))
from common import *  # noqa

LEVELS = {}


def main():
    ap = argparse.ArgumentParser()
    ap.add_argument("prop")
    ap.add_argument("--tier", default=os.environ.get("VERIF_TIER", "quick"))
    ap.add_argument("--replay")
    a = ap.parse_args()
    tier = a.tier if a.tier in ("quick", "thorough") else "quick"
    seed = int(os.environ.get("VERIF_SEED", "0") or 0)
    try:
        mod = importlib.import_module("props." + a.prop.lower())
    except ImportError as e:
        print("no check for %s: %s" % (a.prop, e))
        return EXIT_BROKEN
    chk = Check(a.prop, mod.LEVEL, tier, seed)
    if a.replay:
        rec = json.load(open(a.replay))
        chk.replay_key = (rec.get("rule"), rec.get("key"))
        print("replaying %s %s on the current tree" % chk.replay_key)
    try:
        return mod.run(chk, tier)
    except AnalysisBroken as e:
        # an engine could not run; whatever was already decided is still reported (violations win over brokenness)
        chk.broke(str(e))
        return chk.finish(explanation="aborted: an analysis step could not run (%s); rules evaluated before it are listed" % str(e)[:300],
                          rule_text="partial run")
    except Exception:
        traceback.print_exc()
        print("ANALYSIS-BROKEN property=%s: internal error" % a.prop)
        return EXIT_BROKEN


if __name__ == "__main__":
    sys.exit(main())

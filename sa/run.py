#!/usr/bin/env python3
"""Entry point of every check:  python3 sa/run.py <Cnn> [--tier quick|thorough]
                                python3 sa/run.py <Cnn> --replay <violation.json>
Exit 0 held / 1 VIOLATION / 2 analysis broken."""
import argparse
import importlib
import json
import os
import sys
import traceback

sys.path.insert(0, os.path.dirname(os.path.abspath(__file__)))
from common import *  # noqa
from libsum import NoLivePath
from symeng import SelfRecursion

LEVELS = {}


def main():
    ap = argparse.ArgumentParser()
    ap.add_argument("prop")
    ap.add_argument("--tier", default=os.environ.get("VERIF_TIER", "quick"))
    ap.add_argument("--replay")
    a = ap.parse_args()
    tier = a.tier if a.tier in ("quick", "thorough") else "quick"
    seed = int(os.environ.get("VERIF_SEED", "0") or 0)
    try:
        mod = importlib.import_module("props." + a.prop.lower())
    except ImportError as e:
        print("no check for %s: %s" % (a.prop, e))
        return EXIT_BROKEN
    chk = Check(a.prop, mod.LEVEL, tier, seed)
    if a.replay:
        rec = json.load(open(a.replay))
        chk.replay_key = (rec.get("rule"), rec.get("key"))
        print("replaying %s %s on the current tree" % chk.replay_key)
    try:
        return mod.run(chk, tier)
    except GeneratorRejects as e:
        chk.violation("GEN.accept" if e.rc == 1 else "GEN.crash", "generator:" + e.schema, "corpus/%s.xml" % e.schema,
                      "sbeppc built from this tree %s the valid schema %s: %s" % ("rejects" if e.rc == 1 else "terminates abnormally (status %s) on" % e.rc, e.schema, e.out[-240:]))
        return chk.finish(explanation="aborted: the generator does not accept a schema of the build set / corpus; rules evaluated before it are listed",
                          rule_text="partial run")
    except SelfRecursion as e:
        fn = e.fn
        chk.violation("E2.recursion", "recursion:" + (fn.get("base") or fn.get("qn", "?"))[:120], "%s:%s" % (rel(fn.get("file", "?")), fn.get("line")),
                      "%s calls itself unconditionally (the same instantiation is re-entered on every path): the operation never "
                      "returns" % fn.get("qn", "?")[:200])
        return chk.finish(explanation="aborted at a self-recursive function; rules evaluated before it are listed", rule_text="partial run")
    except NoLivePath as e:
        # a row wanted the normal-completion path of a function and there is none: with valid arguments the operation
        # always ends in the assertion handler
        fn = e.fn
        chk.violation("E2.nopath", "nopath:" + (fn.get("base") or fn.get("qn", "?"))[:120], "%s:%s" % (rel(fn.get("file", "?")), fn.get("line")),
                      "no path of %s completes without invoking the assertion handler: an asserted condition contradicts what "
                      "the operation itself just established" % fn.get("qn", "?")[:200])
        return chk.finish(explanation="aborted at the first function without a completing path; rules evaluated before it are listed",
                          rule_text="partial run")
    except AnalysisBroken as e:
        # an engine could not run; whatever was already decided is still reported (violations win over brokenness)
        chk.broke(str(e))
        return chk.finish(explanation="aborted: an analysis step could not run (%s); rules evaluated before it are listed" % str(e)[:300],
                          rule_text="partial run")
    except Exception:
        traceback.print_exc()
        print("ANALYSIS-BROKEN property=%s: internal error" % a.prop)
        return EXIT_BROKEN


if __name__ == "__main__":
    sys.exit(main())

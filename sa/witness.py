"""E5: compile witnesses (type checking only - no library logic is evaluated).

C11  negative witnesses: every mutating call form of every schema entity,
     generated from the XML model, instantiated with a const byte type (and
     with a const cursor on a mutable view) must be rejected by the compiler;
     positive witnesses: conversions only towards more-const.
C18  tag-kind predicates and traits_tag round trips.
C07  every generated header compiles standalone; the harness TU compiles.
"""
import re

from common import *
import schemas
import sbe_model as M
import harness


class NegGen(harness.Gen):
    """one mutating statement per line; lines are recorded with what they test"""

    def __init__(self, schema, variant=0):
        super().__init__(schema)
        self.tags = {}      # line number -> description
        # a hard error inside a member's body is reported once per instantiation,
        # so `clear()` (which calls resize()) gets its own TU (variant 1)
        self.variant = variant

    def stmt(self, code, what, iso=False):
        # variant 2: statements whose rejection may surface as a hard error deep inside an accessor (attributed to no
        # line): each of them is compiled alone
        if (self.variant == 2) != bool(iso):
            return
        if iso:
            self.out.append("    " + code)
            self.tags[len(self.out)] = what
            return
        is_clear = code.endswith(".clear();") and "v." in code and "()." in code and "resize" not in code and what.endswith(".clear") and "[" not in what
        group_clear = is_clear and not what.endswith("data.clear") and getattr(self, "_in_group_stmt", False)
        if self.variant == 1 and not group_clear:
            return
        if self.variant == 0 and group_clear:
            return
        self.out.append("    " + code)
        self.tags[len(self.out)] = what

    def array_static(self, acc, what):
        self.stmt('%s.assign_string("x");' % acc, what + ".assign_string(const char*)")
        self.stmt("%s.assign_string(src);" % acc, what + ".assign_string(range)")
        self.stmt("%s.assign_range(src);" % acc, what + ".assign_range")
        self.stmt("%s.fill({});" % acc, what + ".fill")
        self.stmt("%s.assign(1, {});" % acc, what + ".assign(n, v)")
        self.stmt("%s.assign(src, src + 1);" % acc, what + ".assign(first, last)")
        self.stmt("%s.assign({{}, {}});" % acc, what + ".assign(ilist)")
        self.stmt("%s[0] = {};" % acc, what + "[i] = v")
        self.stmt("*%s.begin() = {};" % acc, what + " *begin() = v")

    def array_dynamic(self, acc, what):
        for code, w in (("clear()", "clear"), ("resize(1)", "resize(n)"), ("resize(1, {})", "resize(n, v)"),
                        ("resize(1, ::sbepp::default_init)", "resize(n, default_init)"), ("push_back({})", "push_back"),
                        ("pop_back()", "pop_back"), ("erase(%s.begin())" % acc, "erase(pos)"),
                        ("erase(%s.begin(), %s.end())" % (acc, acc), "erase(first, last)"),
                        ("insert(%s.begin(), {})" % acc, "insert(pos, v)"), ("insert(%s.begin(), 1, {})" % acc, "insert(pos, n, v)"),
                        ("insert(%s.begin(), src, src + 1)" % acc, "insert(pos, first, last)"),
                        ("assign(1, {})", "assign(n, v)"), ("assign(src, src + 1)", "assign(first, last)"),
                        ('assign_string("x")', "assign_string"), ("assign_range(src)", "assign_range")):
            self.stmt("%s.%s;" % (acc, code), "%s.%s" % (what, w))
        self.stmt("%s[0] = {};" % acc, what + "[i] = v")

    def comp_fn(self, comp, path):
        name = "ncomp_%d" % self.fn_id
        self.fn_id += 1
        subs = []
        for el in comp.elements:
            if self.elem_kind(el) == "composite" and not isinstance(el, M.Ref):
                subs.append((el, self.comp_fn(el, path + [el.name])))
        self.w("template<typename View> void %s(View v)" % name)
        self.w("{")
        self.w("    const char src[2] = {}; (void)src; (void)v;")
        for el in comp.elements:
            k = self.elem_kind(el)
            what = "::".join(path + [el.name])
            tag = self.tag_type(path + [el.name])
            if k in ("scalar", "enum", "set"):
                self.stmt("v.%s(decltype(v.%s()){});" % (el.name, el.name), what + " setter")
                self.stmt("::sbepp::set_by_tag<%s>(v, decltype(v.%s()){});" % (tag, el.name), what + " set_by_tag")
            elif k == "array":
                self.array_static("v.%s()" % el.name, what)
        for el, sub in subs:
            self.w("    %s(v.%s());" % (sub, el.name))
        self.w("}")
        return name

    def level_fns(self, lvl, path, is_msg):
        name = "nlvl_%d" % self.fn_id
        self.fn_id += 1
        gsubs = [(g, self.level_fns(g, path + [g.name], False)) for g in lvl.groups]
        # ---- all mutators (const view)
        self.w("template<typename View, typename Cur> void %s_all(View v, Cur& c)" % name)
        self.w("{")
        self.w("    const char src[2] = {}; (void)src; (void)v; (void)c;")
        if is_msg:
            self.stmt("::sbepp::fill_message_header(v);", "::".join(path) + " fill_message_header")
        for f in lvl.fields:
            k = self.field_kind(f)
            what = "::".join(path + [f.name])
            tag = self.tag_msg(path + [f.name])
            if k in ("scalar", "enum", "set"):
                self.stmt("v.%s(decltype(v.%s()){});" % (f.name, f.name), what + " setter")
                self.stmt("::sbepp::set_by_tag<%s>(v, decltype(v.%s()){});" % (tag, f.name), what + " set_by_tag")
                for kn, ce in harness.CURSOR_KINDS[:4]:
                    self.stmt("v.%s(decltype(v.%s()){}, %s);" % (f.name, f.name, ce), what + " cursor setter (%s)" % kn)
                self.stmt("::sbepp::set_by_tag<%s>(v, decltype(v.%s()){}, c);" % (tag, f.name), what + " set_by_tag with cursor")
            elif k == "array":
                self.array_static("v.%s()" % f.name, what)
            elif k == "composite":
                pass
        for g, sub in gsubs:
            what = "::".join(path + [g.name])
            self.stmt("v.%s().resize(1);" % g.name, what + ".resize")
            self._in_group_stmt = True
            self.stmt("v.%s().clear();" % g.name, what + ".clear")
            self._in_group_stmt = False
            self.stmt("::sbepp::fill_group_header(v.%s(), 1);" % g.name, what + " fill_group_header")
            self.w("    %s_all(v.%s().front(), c);" % (sub, g.name))
        for d in lvl.data:
            self.array_dynamic("v.%s()" % d.name, "::".join(path + [d.name]))
        self.w("}")
        # ---- cursor setters only (mutable view, const cursor)
        self.w("template<typename View, typename Cur> void %s_cur(View v, Cur& c)" % name)
        self.w("{")
        self.w("    (void)v; (void)c;")
        for f in lvl.fields:
            k = self.field_kind(f)
            what = "::".join(path + [f.name])
            if k in ("scalar", "enum", "set"):
                for kn, ce in harness.CURSOR_KINDS[:4]:
                    self.stmt("v.%s(decltype(v.%s()){}, %s);" % (f.name, f.name, ce), what + " cursor setter, const cursor on mutable view (%s)" % kn)
            elif k == "array":
                for kn, ce in harness.CURSOR_KINDS[:4]:
                    self.stmt("v.%s(%s).fill({});" % (f.name, ce), what + " array obtained through a const cursor on a mutable view (%s): fill" % kn, iso=True)
        # views handed out by cursor accessors take their constness from the cursor
        for g, sub in gsubs:
            what = "::".join(path + [g.name])
            for kn, ce in harness.CURSOR_KINDS[:4]:
                self.stmt("::sbepp::fill_group_header(v.%s(%s), 1);" % (g.name, ce), what + " group obtained through a const cursor on a mutable view (%s): fill_group_header" % kn, iso=True)
        for d in lvl.data:
            what = "::".join(path + [d.name])
            for kn, ce in harness.CURSOR_KINDS[:4]:
                self.stmt("v.%s(%s).push_back({});" % (d.name, ce), what + " data obtained through a const cursor on a mutable view (%s): push_back" % kn, iso=True)
        for g, sub in gsubs:
            self.w("    %s_cur(v.%s().front(), c);" % (sub, g.name))
        self.w("}")
        # ---- cursor setters (const view, MUTABLE cursor into the same buffer): what a setter may write is decided by the
        #      view's byte type too - the dont_move / init wrappers store through the cursor's own pointer
        self.w("template<typename View, typename Cur> void %s_mcur(View v, Cur& c)" % name)
        self.w("{")
        self.w("    (void)v; (void)c;")
        stored = [f for f in lvl.fields if self.field_kind(f) in ("scalar", "enum", "set")]
        nonconst = [f for f in lvl.fields if getattr(f, "presence", "") != "constant"]
        # the generator has separate templates for the last non-constant field of a block and for the others: one witness
        # set for each (compiled one statement per TU: a rejection may be a hard error deep inside the accessor)
        picks = []
        if stored:
            if nonconst and nonconst[-1] in stored:
                picks.append(nonconst[-1])
            first_other = [f for f in stored if not picks or f is not picks[0]]
            if first_other:
                picks.append(first_other[0])
        for f in picks:
            what = "::".join(path + [f.name])
            for kn, ce in harness.CURSOR_KINDS[:4]:
                self.stmt("v.%s(decltype(v.%s()){}, %s);" % (f.name, f.name, ce), what + " cursor setter, mutable cursor on const view (%s)" % kn, iso=True)
        for g, sub in gsubs:
            self.w("    %s_mcur(v.%s().front(), c);" % (sub, g.name))
        self.w("}")
        return name

    def generate_neg(self):
        s = self.s
        self.w("// negative witnesses generated by /verif/sa/witness.py from %s" % s.path)
        self.w('#include "vh_common.hpp"')
        self.w("#include <%s/%s.hpp>" % (s.name, s.name))
        self.w("namespace wn_%s {" % s.name)
        comps = []
        arrays = []
        for enc in s.type_order:
            pub = "%s::types::%s" % (self.ns, enc.name)
            if isinstance(enc, M.Composite):
                comps.append((pub, self.comp_fn(enc, [enc.name])))
            elif isinstance(enc, M.Type) and not enc.is_constant and enc.length != 1:
                arrays.append((pub, enc.name))
        msgs = [(m, self.level_fns(m, [m.name], True)) for m in s.messages]
        if arrays:
            self.w("template<typename A> void narr(A a)")
            self.w("{")
            self.w("    const char src[2] = {}; (void)src; (void)a;")
            self.array_static("a", "public array type")
            self.w("}")
        self.w("inline void drive(char* p, const char* cp, std::size_t n)")
        self.w("{")
        self.w("    ::sbepp::cursor<const char> cc;")
        for pub, fn in comps:
            self.w("    { %s<const char> w{cp, n}; %s(w); }" % (pub, fn))
        for pub, nm in arrays:
            self.w("    { %s<const char> w{cp, n}; narr(w); }" % pub)
        for m, fn in msgs:
            pub = "%s::messages::%s" % (self.ns, m.name)
            self.w("    { %s<const char> w{cp, n}; %s_all(w, cc); %s<char> v{p, n}; %s_cur(v, cc); ::sbepp::cursor<char> mc; %s_mcur(w, mc); }" % (pub, fn, pub, fn, fn))
        # conversions towards less-const must not exist
        for pub, fn in comps[:3]:
            self.stmt("{ %s<const char> w{cp, n}; %s<char> bad{w}; (void)bad; }" % (pub, pub), "conversion const -> mutable view " + pub)
        for m, fn in msgs[:3]:
            pub = "%s::messages::%s" % (self.ns, m.name)
            self.stmt("{ %s<const char> w{cp, n}; %s<char> bad{w}; (void)bad; }" % (pub, pub), "conversion const -> mutable view " + pub)
        self.stmt("{ ::sbepp::cursor<const char> c1; ::sbepp::cursor<char> c2{c1}; (void)c2; }", "conversion const -> mutable cursor")
        self.stmt("{ ::sbepp::cursor<const char> c1; ::sbepp::cursor<char> c2; c2 = c1; }", "assignment const -> mutable cursor")
        self.w("}")
        self.w("} // namespace")
        return "\n".join(self.out) + "\n", self.tags


DIAG = re.compile(r"^(.*?):(\d+):(\d+): (error|note|warning|fatal error): (.*)$")


def compile_neg(src_path, flags, compiler="clang++"):
    cmd = [compiler, "-fsyntax-only", "-w"] + flags + [src_path]
    if compiler == "clang++":
        cmd.insert(2, "-ferror-limit=0")
        cmd.insert(2, "-ftemplate-backtrace-limit=0")
    else:
        cmd.insert(2, "-fmax-errors=0")
        cmd.insert(2, "-ftemplate-backtrace-limit=0")
    r = run(cmd)
    blocks = []
    cur = None
    pending = []          # gcc prints the instantiation chain ("required from ...") *before* the error it belongs to
    for line in r.stderr.splitlines():
        m = DIAG.match(line)
        if not m:
            if re.match(r"^[^:\s][^:]*: In (instantiation|substitution|function|member function|static member function|constructor|lambda)", line):
                pending = []      # a new diagnostic group starts: its chain follows
                continue
            m2 = re.match(r"^(.*?):(\d+):(\d+):\s+(required from|required by|in instantiation)", line)
            if m2:
                pending.append((m2.group(1), int(m2.group(2))))
            continue
        f, ln, col, kind, msg = m.groups()
        if kind in ("error", "fatal error"):
            cur = {"locs": [(f, int(ln))] + pending, "msg": msg, "notes": []}
            pending = []
            blocks.append(cur)
        elif cur is not None:
            cur["locs"].append((f, int(ln)))
            cur["notes"].append(msg)
    if compiler != "clang++":
        # gcc reports follow-up errors of one failed instantiation (the substitution failure behind a "no matching
        # function") as separate errors without a chain of their own: they belong to the error before them
        base = os.path.basename(src_path)
        prev = None
        for b in blocks:
            if not any(os.path.basename(f) == base for f, _ in b["locs"]) and prev is not None:
                b["locs"] = b["locs"] + [(f, ln) for f, ln in prev["locs"] if os.path.basename(f) == base]
            else:
                prev = b
    return r.returncode, blocks, r.stderr


def check_c11_schema(chk, sref, root, std="c++17", compiler="clang++"):
    n = check_c11_variant(chk, sref, root, std, compiler, 0)
    if any(True for lvl, _, _ in sref.model.levels() if lvl.groups):
        n += check_c11_variant(chk, sref, root, std, compiler, 1)
    if std == "c++17":
        n += check_c11_variant(chk, sref, root, std, compiler, 2)
    return n


def check_c11_one_by_one(chk, sref, src, tags, p, flags, std, compiler):
    """compiler-independent judgement (used for g++, whose diagnostics of one failed instantiation are not repeated
    per call site): the TU with *no* mutator line must compile, and the TU with exactly one mutator line must not"""
    from concurrent.futures import ThreadPoolExecutor
    lines = src.split("\n")
    d = os.path.dirname(p)
    base = os.path.basename(p)[:-4]

    def variant_src(keep):
        out = []
        for i, l in enumerate(lines, 1):
            out.append("" if (i in tags and i != keep) else l)
        return "\n".join(out)

    def compiles(keep):
        q = os.path.join(d, "%s_%s_%s_%d.cpp" % (base, compiler.replace("+", "p"), std.replace("+", "p"), keep))
        open(q, "w").write(variant_src(keep))
        r = run([compiler, "-fsyntax-only", "-w", "-fmax-errors=1" if compiler != "clang++" else "-ferror-limit=1"] + flags + [q])
        try:
            os.unlink(q)
        except OSError:
            pass
        return keep, r.returncode == 0, r.stderr[:300]
    k0, ok0, err0 = compiles(0)
    if not ok0:
        chk.broke("negative witness skeleton of %s does not compile under %s %s: %s" % (sref.name, compiler, std, err0))
        return 0
    with ThreadPoolExecutor(NPROC) as ex:
        res = list(ex.map(compiles, sorted(tags)))
    n = 0
    for ln, ok_, err in res:
        n += 1
        what = tags[ln]
        key = "%s|%s" % (sref.name, what)
        if not ok_:
            chk.ok("W-NEG", key + "@" + std + compiler[0], {"call": lines[ln - 1].strip(), "rejected_with": err.split("error:")[-1][:100].strip()})
        else:
            chk.violation("W-NEG", re.sub(r"\S*::(\w+::\w+) ", r"\1 ", what), "%s:%d" % (p, ln),
                          "mutating call `%s` (%s, schema %s) compiles on a read-only view/cursor under %s %s"
                          % (lines[ln - 1].strip(), what, sref.name, compiler, std))
    return n


def check_c11_variant(chk, sref, root, std, compiler, variant):
    g = NegGen(sref.model, variant)
    src, tags = g.generate_neg()
    if not tags:
        return 0
    d = os.path.join(root, "_witness")
    os.makedirs(d, exist_ok=True)
    p = os.path.join(d, "neg%d_%s.cpp" % (variant, sref.name))
    open(p, "w").write(src)
    flags = ["-std=" + std, "-I" + os.path.join(REPO, "sbepp/src"), "-I" + schemas.HARNESS_DIR, "-I" + root]
    if compiler != "clang++" or variant == 2:
        return check_c11_one_by_one(chk, sref, src, tags, p, flags, std, compiler)
    rc, blocks, err = compile_neg(p, flags, compiler)
    if rc == 0:
        chk.violation("W-NEG", "neg-tu-compiles:" + sref.name, p, "the whole negative witness TU of %s compiles: no mutator is rejected" % sref.name)
        return 0
    hit = {}
    stray = []
    if variant == 1 and compiler == "clang++":
        # a hard error inside group::clear() is reported through the enclosing
        # witness function, not through the calling line: attribute per function
        lines = src.splitlines()
        fn_of_line = {}
        cur_fn = None
        for i, l in enumerate(lines, 1):
            m = re.match(r"template<.*> void (nlvl_\d+_all)\(", l)
            if m:
                cur_fn = m.group(1)
            if i in tags:
                fn_of_line[i] = cur_fn
        per_fn = {}
        for b in blocks:
            fnm = None
            grp = None
            for nt in b.get("notes", []):
                m = re.search(r"(nlvl_\d+_all)<", nt)
                if m and fnm is None:
                    fnm = m.group(1)
                m2 = re.search(r"member function '([^']*)::resize'", nt)
                if m2 and grp is None:
                    grp = m2.group(1)
            if fnm and grp:
                per_fn.setdefault(fnm, set()).add(grp)
        for fnm in set(fn_of_line.values()):
            want = sorted(l for l, f2 in fn_of_line.items() if f2 == fnm)
            got = len(per_fn.get(fnm, ()))
            for l in want[:got]:
                hit[l] = "no matching member function for call to 'numInGroup' (through clear -> resize)"
        blocks = []
    for b in blocks:
        lines = [ln for (f, ln) in b["locs"] if os.path.basename(f) == os.path.basename(p)]
        tagged = [ln for ln in lines if ln in tags]
        if tagged:
            for ln in tagged[:1]:
                hit.setdefault(ln, b["msg"])
            # gcc reports one block per instantiation chain; attribute to all tagged lines in it
        elif lines:
            stray.append((lines[0], b["msg"]))
        else:
            stray.append((0, b["msg"]))
    if stray:
        # the TU is not the one that was meant to be judged (missing header, unrelated error): no line is decided
        chk.broke("negative witness TU of %s has errors outside mutator lines: %s" % (sref.name, stray[:3]))
        return 0
    n = 0
    for ln, what in sorted(tags.items()):
        n += 1
        key = "%s|%s" % (sref.name, what)
        if ln in hit:
            chk.ok("W-NEG", key + "@" + std + compiler[0], {"call": src.splitlines()[ln - 1].strip(), "rejected_with": hit[ln][:100]})
        else:
            chk.violation("W-NEG", re.sub(r"\S*::(\w+::\w+) ", r"\1 ", what), "%s:%d" % (p, ln),
                          "mutating call `%s` (%s, schema %s) compiles on a read-only view/cursor under %s %s"
                          % (src.splitlines()[ln - 1].strip(), what, sref.name, compiler, std))
    return n


POS = r'''
#include "vh_common.hpp"
#include <%(name)s/%(name)s.hpp>
#include <type_traits>
namespace wp {
%(body)s
}
'''


def check_c11_conversions(chk, sref, root, lib, std="c++17"):
    """positive witnesses: view<char> -> view<const char> convertible, not the reverse (is_convertible)"""
    names = lib.names()
    lines = []
    tags = {}
    views = []
    for k, t in sorted(names.items()):
        if (k.startswith("msg__") or k.startswith("ty__")) and t.endswith("<char>"):
            views.append(t[:-len("<char>")])
    body = []
    for v in views:
        body.append("static_assert(std::is_convertible<::%s<char>, ::%s<const char>>::value, \"\");" % (v, v))
        tags[len(body)] = ("to-const", v)
        body.append("static_assert(!std::is_convertible<::%s<const char>, ::%s<char>>::value, \"\");" % (v, v))
        tags[len(body)] = ("from-const", v)
        body.append("static_assert(!std::is_constructible<::%s<char>, ::%s<const char>>::value, \"\");" % (v, v))
        tags[len(body)] = ("construct-from-const", v)
    for a, b, pos in (("::sbepp::cursor<char>", "::sbepp::cursor<const char>", True), ("::sbepp::cursor<const char>", "::sbepp::cursor<char>", False)):
        body.append("static_assert(%sstd::is_convertible<%s, %s>::value, \"\");" % ("" if pos else "!", a, b))
        tags[len(body)] = ("cursor", a + "->" + b)
        body.append("static_assert(%sstd::is_assignable<%s&, %s>::value, \"\");" % ("" if pos else "!", b, a))
        tags[len(body)] = ("cursor-assign", a + "->" + b)
    src = POS % {"name": sref.name, "body": "\n".join(body)}
    first = src.splitlines().index(body[0]) + 1 if body else 0
    d = os.path.join(root, "_witness")
    os.makedirs(d, exist_ok=True)
    p = os.path.join(d, "pos_%s.cpp" % sref.name)
    open(p, "w").write(src)
    flags = ["-std=" + std, "-I" + os.path.join(REPO, "sbepp/src"), "-I" + schemas.HARNESS_DIR, "-I" + root]
    rc, blocks, err = compile_neg(p, flags)
    bad = {}
    for b in blocks:
        for f, ln in b["locs"]:
            if os.path.basename(f) == os.path.basename(p):
                bad.setdefault(ln - first + 1, b["msg"])
    for i, (kind, what) in sorted(tags.items()):
        key = "conv|%s|%s" % (kind, what.split("::")[-1] if kind != "cursor" else what)
        if i in bad:
            chk.violation("W-CONV", "conv|" + kind, p,
                          "conversion witness fails for %s (%s): %s" % (what, kind, body[i - 1]))
        else:
            chk.ok("W-CONV", key + "@" + sref.name, {"witness": body[i - 1][:140]})
    return len(tags)


CVW = r'''
#include <sbepp/sbepp.hpp>
#include <type_traits>
#include <iterator>
namespace wcv {
struct tag {};
template<typename B> using sarr = ::sbepp::detail::static_array_ref<B, char, 4, tag>;
template<typename B> using sarr8 = ::sbepp::detail::static_array_ref<B, std::uint8_t, 3, tag>;
template<typename B> using darr = ::sbepp::detail::dynamic_array_ref<B, char, ::sbepp::uint32_t, ::sbepp::endian::little>;
template<typename B> using darr8 = ::sbepp::detail::dynamic_array_ref<B, std::uint8_t, ::sbepp::uint8_t, ::sbepp::endian::big>;
template<typename R> using unref = typename std::remove_reference<R>::type;
template<typename P> using unptr = typename std::remove_pointer<P>::type;
%(body)s
}
'''


def check_cv_witness(chk, root, std="c++17", compiler="clang++"):
    """W-CV: const-ness of what array references hand out, for every cv-qualification of the byte type (the library
    copies the byte type's cv-qualifiers onto the element type): for a byte type that is const - also `const
    volatile` - `reference`, `pointer`, `element_type` and the iterators' reference types are const, so no element
    store type-checks; for a non-const byte type they are not (mutable views stay usable).  Type computations only."""
    cvs = [("char", False, False), ("const char", True, False), ("volatile char", False, True), ("const volatile char", True, True),
           ("const unsigned char", True, False), ("const volatile unsigned char", True, True)]
    body, tags = [], {}

    def add(line, what):
        body.append(line)
        tags[len(body)] = what
    for frm, c, v in cvs:
        for to in ("char", "std::uint8_t", "int"):
            want = ("const " if c else "") + ("volatile " if v else "") + to
            add("static_assert(std::is_same< ::sbepp::detail::apply_cv_qualifiers_t<%s, %s>, %s>::value, \"\");" % (frm, to, want),
                "apply_cv_qualifiers_t<%s, %s> is %s" % (frm, to, want))
        for arr in ("sarr", "sarr8", "darr", "darr8"):
            for member, strip in (("reference", "unref"), ("pointer", "unptr"), ("element_type", ""),
                                  ("iterator", "unptr"), ("reverse_iterator::reference", "unref")):
                t = "typename %s<%s>::%s" % (arr, frm, member) if "::" not in member else "typename %s<%s>::%s" % (arr, frm, member)
                expr = "std::is_const<%s>::value" % (("%s<%s>" % (strip, t)) if strip else t)
                add("static_assert(%s%s, \"\");" % ("" if c else "!", expr),
                    "%s<%s>::%s refers to %s elements" % (arr, frm, member, "const" if c else "non-const"))
    src = CVW % {"body": "\n".join(body)}
    first = src.splitlines().index(body[0]) + 1
    d = os.path.join(root, "_witness")
    os.makedirs(d, exist_ok=True)
    p = os.path.join(d, "cv_%s_%s.cpp" % (compiler.replace("+", "p"), std.replace("+", "p")))
    open(p, "w").write(src)
    flags = ["-std=" + std, "-I" + os.path.join(REPO, "sbepp/src")]
    rc, blocks, err = compile_neg(p, flags, compiler)
    bad = {}
    foreign = []
    for b in blocks:
        mine = [ln for f, ln in b["locs"] if os.path.basename(f) == os.path.basename(p)]
        if mine:
            bad.setdefault(mine[0] - first + 1, b["msg"])
        else:
            foreign.append(b["msg"])
    if foreign and not bad:
        raise AnalysisBroken("cv witness TU does not compile for a reason outside the witness lines: %s" % foreign[:2])
    for i, what in sorted(tags.items()):
        if i in bad:
            chk.violation("W-CV", "cv|" + what.split(" refers")[0].split(" is ")[0], "%s:%d" % (p, first + i - 1),
                          "type witness fails under %s -std=%s: %s does not hold (%s)" % (compiler, std, what, bad[i][:120]))
        else:
            chk.ok("W-CV", "cv|%s@%s-%s" % (what, compiler, std), {"witness": body[i - 1][:150]})
    return len(tags)


def check_no_const_removal(chk, lib, root):
    """no cast in sbepp.hpp / generated code removes const from a pointee; no mutable members"""
    n = 0
    for fn in lib.facts["functions"]:
        f = fn["file"]
        if not (f.endswith("sbepp.hpp") or f.startswith(root)) or "_harness" in f or "_witness" in f:
            continue
        if fn.get("body") is None:
            continue
        for x in walk(fn["body"]):
            k = x.get("k")
            if k in ("CStyleCastExpr", "CXXConstCastExpr", "CXXReinterpretCastExpr", "CXXFunctionalCastExpr", "CXXStaticCastExpr"):
                frm, to = x.get("from", ""), x.get("t", "")
                if not (frm.endswith("*") and to.endswith("*")):
                    continue
                n += 1
                fc = frm[:-1].strip().startswith("const ") or " const" in frm[:-1]
                tc = to[:-1].strip().startswith("const ") or " const" in to[:-1]
                key = "cast:%s:%s" % (fn.get("cls_tpl") or fn.get("base"), fn["name"])
                if fc and not tc:
                    chk.violation("W-CAST", key, "%s:%s" % (rel(f), x.get("l")),
                                  "%s in %s converts `%s` to `%s`: const is cast away from the buffer pointer" % (k, fn["qn"][:120], frm, to))
                else:
                    chk.ok("W-CAST", key + "|" + frm + "->" + to, {"function": fn["qn"][:100], "from": frm, "to": to}, nontrivial=fc)
    for r in lib.facts["records"]:
        if r["file"].endswith("sbepp.hpp") or r["file"].startswith(root):
            for fd in r["fields"]:
                if fd.get("mutable"):
                    chk.violation("W-CAST", "mutable:%s::%s" % (r["tpl"], fd["name"]), "%s:%s" % (rel(r["file"]), r["line"]),
                                  "mutable member %s::%s" % (r["qn"], fd["name"]))
    return n


# ------------------------------------------------------------------ C18 tags
def check_tag_predicates(chk, tier):
    root, results = schemas.generate_all()
    import e4
    for s in e4.schema_list(tier):
        lib = e4.lib_of(s)
        names = lib.names()
        body = []
        tags = {}
        kinds = {"types": None}
        m = s.model

        def add(expr, what):
            body.append("static_assert(%s, \"\");" % expr)
            tags[len(body)] = what
        preds = ["is_type_tag", "is_enum_tag", "is_enum_value_tag", "is_set_tag", "is_set_choice_tag", "is_composite_tag",
                 "is_field_tag", "is_group_tag", "is_data_tag", "is_message_tag", "is_schema_tag"]

        def exactly(tagexpr, kind, what):
            terms = []
            for p in preds:
                if p == kind:
                    terms.append("::sbepp::%s<%s>::value" % (p, tagexpr))
                else:
                    terms.append("!::sbepp::%s<%s>::value" % (p, tagexpr))
            add(" && ".join(terms), what + " is exactly " + kind)
        ns = "::" + m.name + "::schema"
        exactly(ns, "is_schema_tag", "schema tag")

        def enc_tags(enc, path):
            tg = ns + "::" + "::".join(path)
            tgt = enc.target if isinstance(enc, M.Ref) else enc
            kind = {M.Type: "is_type_tag", M.Enum: "is_enum_tag", M.Set: "is_set_tag", M.Composite: "is_composite_tag"}[type(tgt)]
            exactly(tg, kind, "::".join(path))
            if isinstance(enc, M.Enum):
                for v in enc.values:
                    exactly(tg + "::" + v.name, "is_enum_value_tag", "::".join(path + [v.name]))
            elif isinstance(enc, M.Set):
                for c in enc.choices:
                    exactly(tg + "::" + c.name, "is_set_choice_tag", "::".join(path + [c.name]))
            elif isinstance(enc, M.Composite):
                for el in enc.elements:
                    enc_tags(el, path + [el.name])
        for enc in m.type_order:
            enc_tags(enc, ["types", enc.name])
            pub = "::%s::types::%s" % (m.name, enc.name)
            tg = ns + "::types::" + enc.name
            if isinstance(enc, M.Composite):
                add("std::is_same<::sbepp::traits_tag_t<%s<char>>, %s>::value && std::is_same<::sbepp::composite_traits<%s>::value_type<char>, %s<char>>::value"
                    % (pub, tg, tg, pub), "traits_tag round trip " + enc.name)
            elif isinstance(enc, M.Enum):
                add("std::is_same<::sbepp::traits_tag_t<%s>, %s>::value && std::is_same<::sbepp::enum_traits<%s>::value_type, %s>::value" % (pub, tg, tg, pub),
                    "traits_tag round trip " + enc.name)
            elif isinstance(enc, M.Set):
                add("std::is_same<::sbepp::traits_tag_t<%s>, %s>::value && std::is_same<::sbepp::set_traits<%s>::value_type, %s>::value" % (pub, tg, tg, pub),
                    "traits_tag round trip " + enc.name)
            elif isinstance(enc, M.Type) and not enc.is_constant and enc.length == 1:
                add("std::is_same<::sbepp::traits_tag_t<%s>, %s>::value && std::is_same<::sbepp::type_traits<%s>::value_type, %s>::value" % (pub, tg, tg, pub),
                    "traits_tag round trip " + enc.name)

        def level_tags(lvl, path):
            for f in lvl.fields:
                exactly(ns + "::" + "::".join(path + [f.name]), "is_field_tag", "::".join(path + [f.name]))
            for d in lvl.data:
                exactly(ns + "::" + "::".join(path + [d.name]), "is_data_tag", "::".join(path + [d.name]))
            for g in lvl.groups:
                exactly(ns + "::" + "::".join(path + [g.name]), "is_group_tag", "::".join(path + [g.name]))
                level_tags(g, path + [g.name])
        for msg in m.messages:
            exactly(ns + "::messages::" + msg.name, "is_message_tag", "messages::" + msg.name)
            pub = "::%s::messages::%s" % (m.name, msg.name)
            tg = ns + "::messages::" + msg.name
            add("std::is_same<::sbepp::traits_tag_t<%s<char>>, %s>::value && std::is_same<::sbepp::message_traits<%s>::value_type<char>, %s<char>>::value"
                % (pub, tg, tg, pub), "traits_tag round trip " + msg.name)
            level_tags(msg, ["messages", msg.name])
        src = POS % {"name": s.name, "body": "\n".join(body)}
        first = src.splitlines().index(body[0]) + 1
        d = os.path.join(root, "_witness")
        os.makedirs(d, exist_ok=True)
        p = os.path.join(d, "tags_%s.cpp" % s.name)
        open(p, "w").write(src)
        flags = ["-std=c++17", "-I" + os.path.join(REPO, "sbepp/src"), "-I" + schemas.HARNESS_DIR, "-I" + root]
        rc, blocks, err = compile_neg(p, flags)
        bad = {}
        for b in blocks:
            for f, ln in b["locs"]:
                if os.path.basename(f) == os.path.basename(p):
                    bad.setdefault(ln - first + 1, b["msg"])
        for i, what in sorted(tags.items()):
            key = "tagpred|%s|%s" % (s.name, what)
            if i in bad:
                chk.violation("W-TAG", "tagpred|" + what.split(" is exactly ")[-1].split(" ")[0], p,
                              "schema %s: tag witness fails: %s (%s)" % (s.name, what, bad[i][:100]))
            else:
                chk.ok("W-TAG", key, {"witness": body[i - 1][:160]})

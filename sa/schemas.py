"""Schema sets (the repository's own 17 build schemas + the frozen corpus),
running the freshly built sbeppc as the code generator (the build step the
repository itself performs), harness emission and fact extraction of the
generated headers.  All products are memoised under /verif/.cache by content
hash of /repo sources + schema + tool.
"""
import json
import os
import shutil
from concurrent.futures import ThreadPoolExecutor

from common import *
import sbe_model
import harness

REPO_SCHEMAS = [
    # (generated name, xml relative to /repo, explicit schema name or None)
    ("test_schema", "test/schemas/test_schema.xml", "test_schema"),
    ("test_schema2", "test/schemas/test_schema2.xml", "test_schema2"),
    ("big_endian_schema", "test/schemas/big_endian_schema.xml", "big_endian_schema"),
    ("traits_test_schema", "test/schemas/traits_test_schema.xml", "traits_test_schema"),
    ("traits_test_schema2", "test/schemas/traits_test_schema2.xml", "traits_test_schema2"),
]
NAMING = ["type_member_name_clash", "mangled_type_name_clash", "mangled_message_name_clash",
          "mangled_message_header_name", "entry_name_clash", "types_type", "mangled_entry_name_clash",
          "group_member_name_clash", "message_member_name_clash", "messages_message",
          "public_private_type_name_clash", "mangled_group_name_clash"]
for n in NAMING:
    REPO_SCHEMAS.append((n, "test/naming_test/%s.xml" % n, n))

CORPUS = ["vdims", "vprims_le", "vprims_be", "vlayout", "vheaders", "vnames", "vtext"]


class SchemaRef:
    def __init__(self, name, xml, schema_name, origin):
        self.name, self.xml, self.schema_name, self.origin = name, xml, schema_name, origin
        self._model = None

    @property
    def model(self):
        if self._model is None:
            self._model = sbe_model.load(self.xml, self.schema_name)
        return self._model


def all_schemas(include_repo=True, include_corpus=True):
    out = []
    if include_repo:
        for n, rel_xml, sn in REPO_SCHEMAS:
            out.append(SchemaRef(n, os.path.join(REPO, rel_xml), sn, "repo"))
    if include_corpus:
        for n in CORPUS:
            out.append(SchemaRef(n, os.path.join(VERIF, "corpus", n + ".xml"), n, "corpus"))
    return out


def gen_root():
    h = sha(repo_hash(), hash_files([s.xml for s in all_schemas()]), "gen-v1")
    return os.path.join(CACHE, "gen-" + h)


def generate_all():
    """Run sbeppc (built from /repo's working tree) on every schema.  Returns
    (root, results) with results[name] = dict(rc, out, dir)."""
    root = gen_root()
    meta = os.path.join(root, "results.json")
    if os.path.exists(meta):
        try:
            os.utime(root, None)      # mark as in use (pruning goes by age)
        except OSError:
            pass
        return root, json.load(open(meta))
    exe = ensure_sbeppc()
    with Lock("gen"):
        if os.path.exists(meta):
            return root, json.load(open(meta))
        tmp = root + ".tmp%d" % os.getpid()
        shutil.rmtree(tmp, ignore_errors=True)
        os.makedirs(tmp)

        def one(s):
            cmd = [exe, "--schema-name", s.schema_name, "--output-dir", tmp, s.xml]
            try:
                r = run(cmd, timeout=60)
                return s.name, {"rc": r.returncode, "out": (r.stdout + r.stderr)[-2000:], "xml": s.xml,
                                "origin": s.origin}
            except Exception as e:  # timeout
                return s.name, {"rc": -999, "out": "timeout/%s" % e, "xml": s.xml, "origin": s.origin}
        with ThreadPoolExecutor(NPROC) as ex:
            results = dict(ex.map(one, all_schemas()))
        json.dump(results, open(os.path.join(tmp, "results.json"), "w"), indent=1)
        shutil.rmtree(root, ignore_errors=True)
        os.rename(tmp, root)
        prune_cache("gen-", keep=3)
    return root, results


HARNESS_DIR = os.path.join(VERIF, "harness")


def lib_flags(std, asserts=True, extra=()):
    f = ["-std=" + std, "-I" + os.path.join(REPO, "sbepp/src"), "-I" + HARNESS_DIR]
    if asserts:
        f.append("-DSBEPP_ENABLE_ASSERTS_WITH_HANDLER")
    else:
        f.append("-DSBEPP_DISABLE_ASSERTS")
    return f + list(extra)


def harness_source(s, root, **kw):
    d = os.path.join(root, "_harness")
    os.makedirs(d, exist_ok=True)
    p = os.path.join(d, "h_%s.cpp" % s.name)
    src = harness.generate(s.model, **kw)
    if not os.path.exists(p) or open(p).read() != src:
        open(p + ".tmp%d" % os.getpid(), "w").write(src)
        os.rename(p + ".tmp%d" % os.getpid(), p)
    return p


def schema_facts(s, std="c++17", asserts=True, all_cursor_kinds=True, arrays=True):
    """Facts of the harness TU of one schema (generated classes + library
    instantiations it causes)."""
    root, results = generate_all()
    if results[s.name]["rc"] != 0:
        raise GeneratorRejects(s.name, results[s.name]["rc"], results[s.name]["out"][-300:].strip())
    src = harness_source(s, root, all_cursor_kinds=all_cursor_kinds, arrays=arrays)
    key = sha(os.path.basename(root), s.name, std, str(asserts), hash_files([src, os.path.join(HARNESS_DIR, "vh_common.hpp"),
              os.path.join(VERIF, "tool", "sbepp-facts.cc")]), "sf-v1")
    d = os.path.join(CACHE, "facts")
    os.makedirs(d, exist_ok=True)
    out = os.path.join(d, "schema-%s-%s.json" % (s.name, key))
    if not os.path.exists(out):
        with Lock("facts-" + s.name + key):
            if not os.path.exists(out):
                tmp = out + ".tmp%d" % os.getpid()
                extract(src, lib_flags(std, asserts) + ["-I" + root],
                        [os.path.join(REPO, "sbepp"), root, HARNESS_DIR], tmp, no_patterns=False)
                os.rename(tmp, out)
                prune_files(d, "schema-", 90)
    data = json.load(open(out))
    if data.get("errors"):
        raise AnalysisBroken("harness TU of %s does not compile (%s errors)" % (s.name, data["errors"]))
    return data


def prune_facts(keep=120):
    prune_files(os.path.join(CACHE, "facts"), "schema-", keep)

"""C02 - decoding returns exactly what a conforming SBE encoder wrote."""
from common import *
import e4
import spec_codec
from props._lib import lib_for

LEVEL = "other"


def run(chk, tier):
    import gtab
    # generator tables: primitive name -> C++ type / size / wrapper class (value_type and signedness of what getters return)
    gtab.check(chk, sbeppc_facts(), which=("keys", "sizes", "wrapper"))
    # both byte orders under both build paths (memcpy + byteswap before C++20, bit_cast + copy / reverse_copy from C++20)
    plan = [("vprims_le", "c++17"), ("vprims_be", "c++17"), ("vprims_be", "c++20"), ("vprims_le", "c++20")]
    if tier == "thorough":
        plan += [("vprims_be", "c++11"), ("vprims_be", "c++14"), ("vdims", "c++17"), ("vheaders", "c++17"),
                 ("test_schema", "c++17"), ("big_endian_schema", "c++17")]
    for name, std in plan:
        lib = lib_for(name, std)
        spec_codec.check(chk, lib, ("get", "get_value"))
        if std == "c++20":
            spec_codec.check_constexpr(chk, lib)
    # set choices are getters too: the mask of every choice is computed in the set's own width (R-INT shift rule) and
    # selects exactly the choice's bit (mask rows); a 64-bit set whose mask is built in 32 bits decodes choices >= 32 wrongly
    import rint
    import schemas
    import spec_set
    from props._lib import is_lib_or_gen
    root, _ = schemas.generate_all()
    lib = lib_for("vprims_le", "c++17")
    rint.RInt(chk, lib.facts, lib.label, ("S4",)).run(
        lambda f: is_lib_or_gen(f, root) and (f.get("cls_tpl") == "sbepp::detail::bitset_base"))
    spec_set.check(chk, lib, root)
    # what a getter returns is a wrapper object: its value() / operator* hand out the decoded representation unchanged
    # (NaN payloads and signed zeros of optional floats are bits of the image)
    import spec_optional
    spec_optional.check(chk, lib)
    # where an entry and every member behind a group is read from follows from the group's size: H + numInGroup * blockLength
    # and pos * blockLength computed without truncation or overflow for every dimension pair (group rows, R-INT)
    import spec_group
    glib = lib_for("vdims", "c++17")
    spec_group.check_groups(chk, glib, limit=None if tier == "thorough" else 8)
    rint.RInt(chk, glib.facts, glib.label, ("S1", "S2")).run(
        lambda f: is_lib_or_gen(f, root) and (f.get("cls_tpl") in ("sbepp::detail::flat_group_base", "sbepp::detail::nested_group_base",
                                                                   "sbepp::detail::random_access_iterator")))
    # cursor getters decode too: width, byte order and offsets of the cursor primitive each generated accessor forwards to
    e4.check(chk, ("accessors", "cursor"), tier)
    chk.floor("CODEC.get instantiations", chk.rule_counts.get("CODEC.get", 0), 60)
    return chk.finish(
        explanation=("get_primitive<T,E> for every primitive/enum/set underlying type, both byte orders and both build paths "
                     "(memcpy+byteswap, bit_cast+reverse_copy): one READ(ptr, sizeof T), result = those bytes, reversed iff "
                     "E != native and sizeof>1, no arithmetic on the value (so NaN payloads are carried as bits); each side is "
                     "compared with the SBE table, not with the encoder. get_value<T,U,E>: READ width sizeof(U) under a "
                     "SIZE_CHECK of the same U at the same offset. C++20: accessors are constexpr and reach no "
                     "non-constexpr callee. E4: per generated getter of the corpus sizeof(U) = XML primitive size, byte "
                     "order = schema byteOrder, offset = model. Set choices: shift rule and mask rows of bitset_base for the four widths. Value equality on concrete images is not decided."),
        rule_text="instances = codec instantiations x build path, generated getters of the corpus")

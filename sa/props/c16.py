"""C16 - optional/required scalars: null, range, ordering and SBE defaults."""
from common import *
import gtab

LEVEL = "other"


def run(chk, tier):
    facts = sbeppc_facts()
    gtab.check(chk, facts, which=("keys", "wrapper", "literal"))
    chk.floor("G-TAB.literal", chk.rule_counts.get("G-TAB.literal", 0), 55)
    chk.floor("G-TAB.keys", chk.rule_counts.get("G-TAB.keys", 0), 8)
    return chk.finish(
        explanation=("G-TAB: generator default min/max/null tables (types_compiler) compared row by row with the "
                     "sbepp built-in constants (SBEPP_BUILT_IN_IMPL) through static_assert witnesses over the two "
                     "constants, braced into the primitive's C++ type as the generated `return {lit};` does; key sets "
                     "of every per-primitive table; wrapper-type rows."),
        rule_text=("instances = table rows x rule; distinct by (rule,row key); a row is non-trivial when its verdict "
                   "needed a compile witness or a key-set comparison"))

"""C16 - optional/required scalars: null, range, ordering and SBE defaults."""
from common import *
import gtab
import spec_optional
import e4
from props._lib import lib_for

LEVEL = "other"


def run(chk, tier):
    facts = sbeppc_facts()
    gtab.check(chk, facts, which=("keys", "wrapper", "literal"))
    import gflow
    gflow.check_numeric_text(chk)
    plan = [("vprims_le", "c++17"), ("vprims_le", "c++20")]
    if tier == "thorough":
        plan += [("vprims_be", "c++17"), ("vprims_le", "c++11"), ("vprims_le", "c++14"), ("test_schema", "c++17"), ("vlayout", "c++17")]
    for name, std in plan:
        lib = lib_for(name, std)
        spec_optional.check(chk, lib)
        if std == "c++20":
            n = spec_optional.check_threeway(chk, lib)
            chk.floor("operator<=> instantiations", n, 10)
    e4.check(chk, ("minmaxnull",), tier, only=None if tier == "thorough" else ["vprims_le", "vprims_be", "test_schema"])
    chk.floor("G-TAB.literal", chk.rule_counts.get("G-TAB.literal", 0), 55)
    chk.floor("G-TAB.keys", chk.rule_counts.get("G-TAB.keys", 0), 8)
    chk.floor("OPT.order", chk.rule_counts.get("OPT.order", 0), 40)
    return chk.finish(
        explanation=("(a) truth tables: for every instantiation of the six pre-C++20 comparison operators of optional_base "
                     "(all 11 primitives, built-in and schema-defined types) each E2 path is checked under every "
                     "(lhs present, rhs present) assignment consistent with its branch decisions against the documented rule "
                     "(null equals only null, orders before every value, otherwise raw values compare); ==/!= compare raw "
                     "values; has_value = val != null_value(); value_or; in_range = min <= val && val <= max; C++20 "
                     "operator<=> compares values when both present, presence flags otherwise, and its declared category "
                     "admits the value type's. (b) NaN rule: a floating-point null tested with != is flagged (finding D8b). "
                     "(c) G-TAB: generator default min/max/null tables equal the sbepp built-in constants row by row "
                     "(static_assert witnesses over constants in the brace context of the generated code). (d) E4: generated "
                     "min_value/max_value/null_value of every schema type of the corpus equal the XML text or the SBE default."),
        rule_text=("instances = operator instantiation x path x (L,R) assignment, table rows, generated types; distinct by "
                   "(rule, type)"))

"""C03 - decoding honours wire blockLength (schema extension)."""
from common import *
import schemas
import spec_cursor
import spec_group
from props._lib import lib_for

LEVEL = "other"


def run(chk, tier):
    plan = [("vheaders", "c++17"), ("vlayout", "c++17")]
    if tier == "thorough":
        plan += [("vdims", "c++17"), ("vprims_le", "c++17"), ("test_schema", "c++17"), ("vlayout", "c++20")]
    for name, std in plan:
        lib = lib_for(name, std)
        spec_group.check_bases(chk, lib)
        spec_group.check_groups(chk, lib, limit=None if tier == "thorough" else 12)
        spec_group.check_iterators(chk, lib, limit=None if tier == "thorough" else 6)
        # the cursor rows that jump to the block end
        spec_cursor.check(chk, lib, limit_per_row=4 if tier == "quick" else 20)
    # visiting: the checking visitor charges every entry the *wire* blockLength of the group being traversed (stored by
    # on_group from the group's own header, restored when it returns - on every path) and every level its own
    import spec_checked
    vlib = lib_for("vlayout", "c++17", asserts=False)
    spec_checked.check_shapes(chk, vlib)
    spec_checked.check_block_length_state(chk, vlib)
    # visiting a group walks its entries through cursor_range(c): only entries built from the cursor hand it on to the
    # next entry / member (entries without stored fields advance it in their cursor constructor by the wire blockLength)
    import spec_visit
    spec_visit.check(chk, lib_for("vlayout", "c++17"))
    import gflow
    gflow.check_block_length_flow(chk)
    # which cursor primitive the generated accessor of each member forwards to: the last non-constant field of a block
    # must use get_last_value/set_last_value (jump to level + wire blockLength), every other one get_value/set_value
    import e4
    e4.check(chk, ("cursor",), tier)
    chk.floor("BASE rows", chk.rule_counts.get("BASE", 0), 40)
    chk.floor("GRP rows", chk.rule_counts.get("GRP", 0), 100)
    return chk.finish(
        explanation=("Wire-geometry rows: message level = begin + header size, block length = header.blockLength() read "
                     "from the buffer (must contain a wire atom), entry block length = the iterator's (which is the "
                     "dimension's wire value), first variable-length member at level + wire blockLength, next member at "
                     "prev + size_bytes(prev), flat entry i at begin + H + i*wire blockLength, end index = wire "
                     "numInGroup, cursor last-field / first-group jumps to level + wire blockLength; all as equalities of "
                     "affine normal forms of E2 summaries over every instantiation of the corpus (reordered / offset / "
                     "ref-typed / wide headers included). Generator side (G-FLOW c): the compiled block length "
                     "(actual_block_length) flows only into header fillers and block_length() traits, never into an "
                     "accessor, iterator, size_bytes or cursor template. E4 cursor: in the generated headers of every schema the "
                     "accessor of the last non-constant field of each block forwards to get_last_value / set_last_value "
                     "(the jump to the wire block end), all others to the relative-offset primitive."),
        rule_text="instances = (row, instantiation); distinct by (row, dimension/header type)")

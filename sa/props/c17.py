"""C17 - header fillers write exactly the schema's identifying values."""
from common import *
import e4
import ghaz

LEVEL = "translation_validation"


def run(chk, tier):
    # where the header members live is decided by the validator's offset recurrence (validate_element_offset): its
    # guards and state updates are rows of the confirmed table
    import spec_layout
    spec_layout.check_validator_recurrence(chk)
    e4.check(chk, ("fillers",), "thorough" if tier == "thorough" else "quick")
    ghaz.check_header_lookup_siblings(chk)
    n = chk.rule_counts.get("E4.filler", 0)
    chk.floor("fillers", n, 60)
    return chk.finish(
        explanation=("E4: for every message and group of the build set and corpus (header composites reordered, with custom "
                     "offsets, extra members, numGroups/numVarDataFields, ref-typed members, uint8..uint64 fields, both "
                     "byte orders) the E2 summary of the generated fill_*_header body is compared with the XML model: the set "
                     "of WRITE events equals {schemaId, templateId, version, blockLength[, numGroups, numVarDataFields]} at "
                     "the model's header offsets and widths with the schema's values (numInGroup = the argument), no byte "
                     "outside the header is written, the header view is returned. Sibling rule: the three header-element "
                     "lookups in sbeppc resolve <ref> members."),
        rule_text="programs = schemas; cases = message/group levels",
        extra_cov={"programs": chk.extra.get("programs", 0), "disagreements_checked": n})

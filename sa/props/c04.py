"""C04 - cursor access is equivalent to random access and tracks position."""
from common import *
import schemas
import spec_cursor
import spec_group
from props._lib import lib_for

LEVEL = "other"


def run(chk, tier):
    plan = [("vlayout", "c++17"), ("vheaders", "c++17"), ("vprims_be", "c++17")]
    if tier == "thorough":
        plan += [("vdims", "c++17"), ("vprims_le", "c++17"), ("test_schema", "c++17"), ("vnames", "c++17"),
                 ("vlayout", "c++11"), ("vlayout", "c++20"), ("vheaders", "c++20")]
    rows = {}
    for name, std in plan:
        lib = lib_for(name, std)
        r = spec_cursor.check(chk, lib)
        for k, v in r.items():
            rows[k] = rows.get(k, 0) + v
        spec_group.check_iterators(chk, lib, limit=4)
        spec_group.check_bases(chk, lib, limit=6)
        # cursor_range / cursor_subrange of flat and nested groups (start entry, length = n - pos / count, asserts)
        spec_group.check_groups(chk, lib, limit=6)
    # the configuration without size checks has its own copies of the cursor_range / iterator code (#else branches)
    spec_group.check_iterators(chk, lib_for("vlayout", "c++17", asserts=False), limit=4)
    import e4
    import gtab
    import gen
    e4.check(chk, ("cursor",), tier)
    gtab.check(chk, gen.facts(), which=("sizes",))
    chk.extra["cursor_rows_seen"] = rows
    chk.floor("cursor rows (48 = 5 kinds x 10 primitives minus skip setters)", len(rows), 48)
    n = sum(v for k, v in chk.rule_counts.items() if k.startswith("CUR."))
    chk.floor("CUR instantiations", n, 1500)
    return chk.finish(
        explanation=("Spec table of the cursor protocol (5 cursor kinds x 10 accessor primitives, written from doc/) "
                     "compared with E2 summaries of every instantiation the corpus harness produces: access address, "
                     "returned value/view, cursor position afterwards (for last-field and first-group/data flavours: "
                     "level start + *wire* blockLength), presence of the 'wrong cursor' assertion "
                     "view.begin+absolute == cursor+relative before any access for plain/dont_move/skip and its absence "
                     "for init kinds, SIZE_CHECK on the base actually accessed, no other write. Plus cursor_range / cursor_subrange (start, length = size - pos or count) / "
                     "input_iterator rows and message_base::size_bytes(cursor) = c - begin. Decides the per-call rows for "
                     "all inputs; the product space of call sequences is not explored (induction over members stated in "
                     "DESIGN.md). E4: every generated cursor accessor of the corpus forwards to the right primitive flavour (last field -> "
                     "get_last_*, first group/data -> get_first_*) with relative/absolute offsets equal to the XML model's; the "
                     "generator's size tables (used for its cursor offset recomputation) equal the SBE sizes."),
        rule_text="instances = (row, instantiation); distinct by (row, template arguments); each compares affine normal forms")

"""C06 - size_bytes_checked is safe and exact on untrusted buffers."""
from common import *
import spec_checked
from props._lib import lib_for

LEVEL = "other"


def run(chk, tier):
    plan = [("test_schema", 40), ("vlayout", 12)]
    if tier == "thorough":
        plan = [("test_schema", None), ("vlayout", None), ("vheaders", None), ("vdims", 12), ("vprims_le", None), ("vnames", None)]
    tot = [0, 0]
    for name, mx in plan:
        lib = lib_for(name, "c++17", asserts=False)
        a, b = spec_checked.check(chk, lib, max_fns=mx)
        tot[0] += a
        tot[1] += b
        if name == plan[0][0]:
            spec_checked.check_validate_and_subtract(chk, lib)
            spec_checked.check_loop_progress(chk, lib)
            spec_checked.check_shapes(chk, lib)
        if name in ("test_schema", "vlayout"):
            spec_checked.check_block_length_state(chk, lib)
    # the traversal is cursor based: what it reads after a group depends on every entry handing the cursor over to its
    # successor and on members being chained in schema order (generated code: E4.cursor)
    import e4
    e4.check(chk, ("cursor",), tier)
    # what on_data subtracts and what the cursor skips is size_bytes(d) of the data view: prefix + wire length, computed
    # without narrowing for every length type (data rows)
    import spec_array
    spec_array.check_dynamic(chk, lib_for("vdims", "c++17"))
    chk.extra["entry_points_analysed"] = tot[0]
    chk.floor("size_bytes_checked instantiations", tot[0], 20)
    chk.floor("reads examined", tot[1], 300)
    return chk.finish(
        explanation=("Read-before-validate over E2 paths of size_bytes_checked<View> (configuration without assertions) for "
                     "every message/group of the listed schemas: each READ outside generic loop iterations must be preceded on "
                     "its path by branch facts K <= n (initial header test and successful validate_and_subtract calls, K = "
                     "bytes accounted) with read_end - view.begin <= K implied by linear combination. Exactness: on loop-free "
                     "valid=true paths the reported size equals the accounted total. Rows: validate_and_subtract (size < n "
                     "=> invalid and unchanged, else subtract), the visitor callbacks validate before descending. Shape rows: each callback validates its own bytes before "
                     "visiting children, returns `true` (stop) exactly when validation failed, and the entry point returns "
                     "{false, 0} for a null / too short view and {valid, n - remaining} otherwise (structural guards and "
                     "returned expressions in normal form). State: the visitor's group_block_length is the wire "
                     "blockLength of the group being traversed at every on_entry (on_group stores its own header's value before "
                     "visiting, every on_group instantiation restores the previous value on all E2 paths, nothing else writes "
                     "the field). Bounded "
                     "work: structural necessary condition on the entry loop. Known findings (D10, replayed with ASan): field "
                     "reads are covered only by the *wire* blockLength, the <data> length prefix is read before it is "
                     "validated, zero-length entries make the loop bound numInGroup. Reads inside entry loops are not "
                     "decided (count reported). 'valid=true exactly when...' over all buffers is not decided."),
        rule_text="instances = (entry point, path, read event) / rows; distinct by (library read site, bound form)")

"""C20 - sbeppc's exit status is truthful and its output deterministic."""
from common import *
import gio
import ghaz

LEVEL = "other"


def run(chk, tier):
    gio.check_write_discipline(chk)
    gio.check_error_codes(chk)
    gio.check_who_touches_disk(chk)
    gio.check_determinism(chk)
    gio.check_initialised(chk)
    caught = ghaz.check_main(chk)
    ghaz.exception_escape(chk, caught)
    return chk.finish(
        explanation=("Error discipline in fs_provider as must-check rules on the AST: write_file tests the stream after "
                     "opening, flushes/closes after the last write and tests the state again with a throwing failure arm "
                     "(ENOSPC/EIO/short writes surface at close); the file is opened for truncating output; "
                     "create_directories tests its error_code; every std::error_code handed to a call is tested, with a failing arm that "
                     "raises, before it is handed to the next call (G-IO.ec); read_file returns data only under a successful read test. "
                     "Who-may-touch-disk: no file API call outside fs_provider (resolved callees). main returns 0 only "
                     "past compile(), every handler returns non-zero and std::exception is covered. Determinism: no default-initialised parse / context struct keeps a scalar member that is never assigned (G-INIT), no ordering / printing / hashing of pointer values, no clock / "
                     "random / pid / environment API and no iteration over a pointer-keyed container anywhere in the TU. "
                     "Behaviour under each individual failing syscall and byte identity of two real runs are not decided; "
                     "iteration order of unordered_map<string,...> is assumed to be a function of the insertion sequence "
                     "for a fixed binary."),
        rule_text="instances = fs_provider functions, file API call sites, scanned calls, main handlers")

"""shared loading for the library-side properties"""
from common import *
import schemas
import libsum

_cache = {}


def lib_for(name, std="c++17", asserts=True):
    k = (name, std, asserts)
    if k not in _cache:
        ss = {s.name: s for s in schemas.all_schemas()}
        facts = schemas.schema_facts(ss[name], std=std, asserts=asserts)
        _cache[k] = libsum.Lib(facts, "%s %s %s" % (name, std, "asserts" if asserts else "no-asserts"))
    return _cache[k]


def is_lib_or_gen(fn, root):
    f = fn["file"]
    if "_harness" in f or f.endswith("vh_common.hpp"):
        return False
    return f.endswith("sbepp.hpp") or f.startswith(root)

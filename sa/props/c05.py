"""C05 - all size computations agree with the encoded size."""
from common import *
import schemas
import spec_group
import rint
from props._lib import lib_for, is_lib_or_gen

LEVEL = "other"


def run(chk, tier):
    root, _ = schemas.generate_all()
    plan = [("vdims", "c++17"), ("vheaders", "c++17")]
    if tier == "thorough":
        plan += [("vlayout", "c++17"), ("vprims_le", "c++17"), ("test_schema", "c++17"), ("vdims", "c++20")]
    for name, std in plan:
        lib = lib_for(name, std)
        r = rint.RInt(chk, lib.facts, lib.label, ("S2", "S3"))
        r.run(lambda f: is_lib_or_gen(f, root))
        chk.extra.setdefault("rint_sinks", 0)
        chk.extra["rint_sinks"] += r.n_sinks
        spec_group.check_groups(chk, lib, limit=None if tier == "thorough" else 8)
        spec_group.check_bases(chk, lib, limit=None if tier == "thorough" else 8)
    import e4
    # run-time sizes are "end of the last member - level start": the chaining of variable-length members (each one located
    # after its predecessor in schema order) and the member the level size is taken from
    e4.check(chk, which=("size_bytes", "cursor", "level_size"), tier=tier)
    chk.floor("R-INT sinks", chk.extra.get("rint_sinks", 0), 2000)
    return chk.finish(
        explanation=("R-INT on every expression returned by a std::size_t function and every SBEPP_SIZE_CHECK argument in "
                     "sbepp.hpp instantiations and generated headers (level size_bytes, trait-level size_bytes(...)): "
                     "the product numInGroup*blockLength and every sum must be computed in a 64-bit type or provably "
                     "fit (interval arithmetic over declared types, all 16 dimension pairs and 4 length types). Spec rows: "
                     "flat size_bytes = H + N*BL, message size_bytes(cursor) = c - begin, level/member chaining. E4: the "
                     "generated size_bytes(...) trait of every message/group of the corpus has the documented parameter "
                     "list and its expression, normalised to a polynomial, equals the XML model's."),
        rule_text="instances = sinks / rows / schema entities; distinct by (function template or entity, rule)")

"""C13 - <data> views behave like a vector bounded by their buffer (per-operation clauses only)."""
from common import *
import schemas
import spec_array
import rchk
import rint
from props._lib import lib_for, is_lib_or_gen

LEVEL = "other"


def run(chk, tier):
    root, _ = schemas.generate_all()
    plan = [("vdims", "c++17"), ("vprims_be", "c++17")]
    if tier == "thorough":
        plan += [("vlayout", "c++17"), ("vheaders", "c++17"), ("vdims", "c++20"), ("vdims", "c++11"), ("test_schema", "c++17")]
    for name, std in plan:
        lib = lib_for(name, std)
        n = spec_array.check_dynamic(chk, lib)
        r = rint.RInt(chk, lib.facts, lib.label, ("S1", "S2", "S3"))
        r.run(lambda f: is_lib_or_gen(f, root) and f.get("cls_tpl") == "sbepp::detail::dynamic_array_ref")
    spec_array.check_value_aliasing(chk, lib_for("vdims", "c++17"))
    spec_array.check_overlapping_copies(chk, lib_for("vdims", "c++17"))
    # iterator-pair overloads are documented for input iterators: a single-pass range is traversed once
    import singlepass
    singlepass.check(chk, lib_for("vdims", "c++17"))
    chk.floor("ARR.data rows", chk.rule_counts.get("ARR.data", 0), 200)
    # length prefix = element count = byte count only for one-byte elements: linked validator guard
    import gguard
    gguard.check(chk, only_prefixes=["sbe_schema_validator::validate_encoding(t) | {}: arrays must have a single-byte type"], effects=False)
    chk.assumptions.append("std::copy / copy_backward / fill_n / copy_n behave as their summaries (trusted)")
    return chk.finish(
        explanation=("The vector-model equivalence over operation *sequences* is a property of histories and is not decided by "
                     "this family. Decided, for every (length type uint8/16/32/64 x byte order x element type) instantiation of "
                     "the corpus, per operation: the E2 summary's write footprint equals the documented one (length prefix "
                     "exactly once with the documented new length; payload range moved / filled / stored exactly as a vector "
                     "would: erase moves [last,end) to first, insert moves [pos,end) up and stores at pos, push_back stores at "
                     "old size, clear/pop_back/resize(default_init) touch only the prefix), returned iterator, and the "
                     "preconditions are asserted with the vector's strictness (pos < size(); begin <= pos <= end for insert; "
                     "begin <= first, last <= end for erase - erasing up to end() is valid). R-INT on the length arithmetic. "
                     "Out-of-bounds coverage of these operations is C10's R-CHK."),
        rule_text="instances = (operation row, length/element instantiation); distinct by (row, instantiation)")

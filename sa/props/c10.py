"""C10 - checked builds never touch memory outside the view silently."""
from common import *
import schemas
import libsum
import rchk
import cfgfacts

LEVEL = "other"


def run(chk, tier):
    root, results = schemas.generate_all()
    ss = {s.name: s for s in schemas.all_schemas()}
    plan = [("vheaders", "c++17", 1), ("vlayout", "c++17", 1)]
    if tier == "thorough":
        plan = [("vheaders", "c++17", 2), ("vlayout", "c++17", 2), ("vdims", "c++17", 1), ("vprims_be", "c++17", 1),
                ("test_schema", "c++17", 1), ("vlayout", "c++20", 1), ("vheaders", "c++11", 1)]
    tot = [0, 0, 0]
    for name, std, per in plan:
        facts = schemas.schema_facts(ss[name], std=std, asserts=True)
        lib = libsum.Lib(facts, "%s %s asserts" % (name, std))
        a, b, c = rchk.check(chk, lib, root, per_shape=per)
        import spec_group
        chk.extra["ctor_rows"] = chk.extra.get("ctor_rows", 0) + spec_group.check_ctors(chk, lib)
        tot[0] += a
        tot[1] += b
        tot[2] += c
    cfgfacts.check_assert_config(chk)
    # the array references count elements as bytes in every size check (sizeof(length) + size(), begin + N): that is the
    # accessed footprint only because the validator rejects arrays - including the length="0" element of a data
    # encoding - whose primitive type is wider than one byte.  Linked G-GUARD instance:
    import gguard
    gguard.check(chk, only_prefixes=["sbe_schema_validator::validate_encoding(t) | {}: arrays must have a single-byte type"], effects=False)
    chk.floor("linked validator guard (single-byte arrays)", chk.rule_counts.get("G-GUARD", 0), 1)
    chk.floor("R-CHK", chk.rule_counts.get("R-CHK", 0), 1500)
    chk.floor("R-CHK.step", chk.rule_counts.get("R-CHK.step", 0), 2)
    chk.floor("BASE.ctor", chk.rule_counts.get("BASE.ctor", 0), 2)
    chk.floor("R-CHK.ref", chk.rule_counts.get("R-CHK.ref", 0), 8)
    chk.floor("R-CHK.derive", chk.rule_counts.get("R-CHK.derive", 0), 40)
    chk.extra["functions_analysed"] = tot[0]
    chk.extra["functions_skipped_budget_or_visit"] = tot[2]
    chk.assumptions += ["dimension / length encodings are unsigned (SBE requirement; the validator rejects non-integer types only and leaves signed ones to the schema author)",
                        "std::copy/copy_n/copy_backward/fill/fill_n/memcpy/memchr access exactly the ranges of their summaries",
                        "iterator-range arguments satisfy first <= last"]
    return chk.finish(
        explanation=("R-CHK over E2 summaries (path-sensitive affine/effect dataflow on clang's typed AST of the library "
                     "and of generated classes instantiated by a model-driven harness, SBEPP_ENABLE_ASSERTS_WITH_HANDLER): "
                     "on every path of every public operation each buffer READ/WRITE [a, a+len) must be preceded by an "
                     "asserted condition U <= end with a+len <= U implied by the path's asserted facts (linear "
                     "combination of at most two facts; no solver). Post-dominating checks are accepted only for the "
                     "single-pass copy operations listed in rchk.POST_CHECK_OK. Plus the preprocessor truth table of "
                     "SBEPP_SIZE_CHECKS_ENABLED over the four configuration macros. Decides the per-operation clause; "
                     "operation sequences follow operation by operation. R-CHK.step: an operation of a class carrying `end` "
                     "that moves its own ptr by an amount read from the buffer (forward iterator step) must have asserted "
                     "facts implying ptr' <= end, since later checks compute end - ptr unsigned. R-CHK.ref: an lvalue into the buffer that an operation returns (operator[], front, "
                     "back) is covered like an access. R-CHK.derive: every view / iterator an operation hands out carries the end "
                     "pointer of the view it was derived from (only make_view / make_const_view originate a bound). Formation of out-of-range "
                     "pointers by caller-supplied amounts (random access iterator arithmetic) is not covered."),
        rule_text=("instances = (function instantiation shape, path, access event); distinct by (function template, access "
                   "kind, address form); all are non-trivial (each needs a dominance + affine implication test)"))

"""C08 - sbeppc rejects exactly the schemas that break its layout rules."""
from common import *
import gguard
import gcalls
import ghaz
import gtab
import gen
import schemas

LEVEL = "other"


def run(chk, tier):
    g = gen.has_goto()
    if g:
        chk.broke("goto/label at %s: structural dominance is not valid" % g)
    gguard.check(chk)
    gcalls.check(chk)
    gcalls.check_required_rules(chk)
    gcalls.check_order(chk)
    gguard.check_memo_caches(chk)
    gguard.check_scans(chk)
    gguard.check_unique_insertion(chk)
    gguard.check_returns(chk)
    ghaz.check_main(chk)
    gtab.check(chk, gen.facts(), which=("keys", "sizes", "classes"))
    # build-level fact: every corpus / build schema (all valid by construction, several on rule boundaries) is accepted
    root, results = schemas.generate_all()
    for name, r in sorted(results.items()):
        key = "accept:" + name
        if r["rc"] != 0:
            chk.violation("GEN.accept", key, rel(r["xml"]) if r["xml"].startswith(REPO) else r["xml"],
                          "valid schema %s is rejected or crashes sbeppc (status %s): %s" % (name, r["rc"], r["out"][-300:].strip()))
        else:
            chk.ok("GEN.accept", key, {"schema": name, "status": 0})
    chk.floor("G-GUARD sites", chk.rule_counts.get("G-GUARD", 0), 85)
    chk.floor("G-CALL callers", chk.rule_counts.get("G-CALL", 0), 24)
    return chk.finish(
        explanation=("G-GUARD: each throw_error site of sbeppc (keyed by its diagnostic text) must be dominated by exactly the "
                     "condition of rules/validator_guards.json (65 hand-confirmed rows: strictness of offset / blockLength / "
                     "choice-range / length comparisons, kind and existence tests, uniqueness), compared as a set of "
                     "normalised conjuncts collected from structural dominance with const locals inlined; the layout effects "
                     "of validate_field_offset / validate_element_offset / validate_block_length likewise. G-CALL: the "
                     "traversal reaches every position (nested groups, inline composites, every public encoding, keyword "
                     "checks per level, uniqueness per scope). main maps sbe_error (and std::exception) to a non-zero "
                     "status; validators run before the compiler. G-TAB: primitive classes and size tables equal the SBE "
                     "table. Build-level fact: the 24 valid schemas (several on rule boundaries: offset == minimum, "
                     "blockLength == minimum, choice == width-1) are accepted. Acceptance of every rule-abiding schema in "
                     "general is not decided."),
        rule_text="instances = throw sites x instantiations, layout assignments, caller/callee requirements, schemas")

"""C07 - accepted schemas yield compilable, name-preserving headers."""
import glob
from concurrent.futures import ThreadPoolExecutor

from common import *
import schemas
import gen
import gtab
import gtpl
import gflow
import gnames

LEVEL = "other"
sh = run        # common.run (the module-level run() below is the check entry point)


def compile_one(args):
    comp, std, inc, hdr = args
    src = '#include "%s"\n' % hdr
    r = sh([comp, "-std=" + std, "-fsyntax-only", "-x", "c++", "-w", "-I" + os.path.join(REPO, "sbepp/src"), "-I" + inc, "-"],
            input=src)
    errs = [l for l in r.stderr.splitlines() if "error" in l][:2]
    return hdr, comp, std, r.returncode, errs


def run(chk, tier):
    facts = gen.facts()
    gtpl.check(chk)
    gflow.check_free_text(chk)
    gflow.check_numeric_text(chk)
    gflow.check_dependency_names(chk)
    gtab.check(chk, facts, which=("keys", "literal", "sizes", "wrapper"))
    gnames.check_keywords(chk)
    gnames.check_name_capture(chk)
    root, results = schemas.generate_all()
    for name, r in sorted(results.items()):
        if r["rc"] != 0:
            chk.violation("GEN.accept", "accept:" + name, r["xml"], "sbeppc fails on valid schema %s: %s" % (name, r["out"][-200:]))
    # standalone compile of every generated header
    hdrs = []
    for name in sorted(results):
        d = os.path.join(root, name)
        hdrs += sorted(glob.glob(os.path.join(d, "**", "*.hpp"), recursive=True))
    cfgs = [("clang++", "c++17")]
    if tier == "thorough":
        cfgs = [("clang++", "c++11"), ("clang++", "c++14"), ("clang++", "c++17"), ("clang++", "c++20"), ("clang++", "c++2b"),
                ("g++", "c++11"), ("g++", "c++17"), ("g++", "c++20"), ("g++", "c++23")]
    jobs = [(c, s, root, h) for (c, s) in cfgs for h in hdrs]
    with ThreadPoolExecutor(NPROC) as ex:
        for hdr, comp, std, rc, errs in ex.map(compile_one, jobs):
            relh = os.path.relpath(hdr, root)
            key = "standalone:%s" % relh
            if rc != 0:
                chk.violation("E5.standalone", key, hdr, "generated header %s does not compile on its own with %s -std=%s: %s"
                              % (relh, comp, std, "; ".join(errs)[:300]))
            else:
                chk.ok("E5.standalone", key + "@%s-%s" % (comp, std), {"header": relh}, nontrivial=True)
    # touch-everything harness (names every entity under its schema name): compiles when facts extraction succeeds
    ss = schemas.all_schemas()
    hcfg = [("c++17", True)] + ([("c++11", True), ("c++20", True), ("c++17", False)] if tier == "thorough" else [])
    for s in ss:
        for std, asserts in hcfg:
            try:
                f = schemas.schema_facts(s, std=std, asserts=asserts)
                anchors = [r for r in f["records"] if r["name"] == "names" and r["qn"].startswith("vh_")]
                n = len(anchors[0]["aliases"]) if anchors else 0
                chk.ok("E5.harness", "harness:%s@%s" % (s.name, std), {"schema": s.name, "entities_named": n})
            except AnalysisBroken as e:
                chk.violation("E5.harness", "harness:%s" % s.name, s.xml,
                              "the touch-everything TU of %s (every accessor / trait / visitor entry point under its schema name) "
                              "does not compile under %s: %s" % (s.name, std, [l for l in str(e).splitlines() if "error:" in l][:2]))
    chk.floor("standalone headers", chk.rule_counts.get("E5.standalone", 0), 300)
    import gcov
    gcov.attach(chk)      # which generator code templates the 24 schemas reach (evidence only)
    return chk.finish(
        explanation=("For all schemas: G-TPL (every replacement field of the ~260 generator templates is bound, format strings "
                     "are literals), G-FLOW a (schema free text never reaches a C++ string/char literal unescaped - finding "
                     "D9), G-TAB (literal tables initialise their C++ type and equal the library constants; complete key "
                     "sets), keyword table covers [lex.key] of C++11-23, name-capture rule (identifiers the templates use "
                     "unqualified inside generated classes vs. names the validators reject - finding D14). For the 24 "
                     "schemas of build set + corpus (name-clash pool, every primitive/presence, all header layouts): each "
                     "generated header compiles standalone, and a model-generated touch-everything TU naming every entity "
                     "at its documented path and calling every accessor flavour compiles. Compilability of arbitrary other "
                     "schemas beyond these rule families is not decided."),
        rule_text="instances = templates, table rows, generated headers x compiler x standard, harness TUs")

"""C15 - set choices are independent bits for every encoding width."""
from common import *
import schemas
import rint
import spec_set
from props._lib import lib_for, is_lib_or_gen

LEVEL = "other"


def run(chk, tier):
    root, _ = schemas.generate_all()
    plan = [("vprims_le", "c++17")]
    if tier == "thorough":
        plan += [("vprims_be", "c++17"), ("vprims_le", "c++11"), ("vprims_le", "c++20"), ("vlayout", "c++17"), ("test_schema", "c++17")]
    for name, std in plan:
        lib = lib_for(name, std)
        r = rint.RInt(chk, lib.facts, lib.label, ("S4",))
        r.run(lambda f: is_lib_or_gen(f, root) and (f.get("cls_tpl") == "sbepp::detail::bitset_base"))
        spec_set.check(chk, lib, root)
    chk.floor("R-INT.S4 shifts", chk.rule_counts.get("R-INT.S4", 0), 8)
    chk.floor("SET rows", chk.rule_counts.get("SET", 0), 30)
    return chk.finish(
        explanation=("R-INT shift rule on bitset_base<T> for T in uint8/16/32/64: the shifted operand must be at least as "
                     "wide as T after promotion and unsigned when it has T's width. E2 mask rows: get_bit = "
                     "bits & (1<<n) != 0, set_bit = (bits & ~(1<<n)) | (b<<n) in T, equality on bits only. Generated "
                     "choice accessors (E4 on the corpus: sets over all four widths with choices 0, w/2, w-1, by-tag and "
                     "visit forwarding): each accessor passes the XML choice index and its own tag, in schema order; "
                     "validator guard `choice > 8*size-1 => reject` is linked."),
        rule_text="instances = shift sites x widths, mask rows x widths, choices of the corpus sets")

"""C14 - fixed-length arrays: assignment, padding and string length are exact."""
from common import *
import schemas
import spec_array
from props._lib import lib_for

LEVEL = "other"


def run(chk, tier):
    plan = [("vprims_le", "c++17"), ("vlayout", "c++17")]
    if tier == "thorough":
        plan += [("vprims_be", "c++17"), ("test_schema", "c++17"), ("vprims_le", "c++20"), ("vprims_le", "c++11"), ("vnames", "c++17"), ("vtext", "c++17")]
    sizes = set()
    for name, std in plan:
        lib = lib_for(name, std)
        spec_array.check_static(chk, lib)
    spec_array.check_array_scans_bounded(chk, lib_for("vprims_le", "c++20"))
    # iterator-pair overloads are documented for input iterators: a single-pass range is traversed once
    import singlepass
    singlepass.check(chk, lib_for("vprims_le", "c++17"))
    chk.floor("ARR.static rows", chk.rule_counts.get("ARR.static", 0), 60)
    chk.assumptions.append("std::copy_n / fill / fill_n / memchr / find_if behave as their summaries (trusted)")
    return chk.finish(
        explanation=("E2 rows for static_array_ref over every array length of the corpus (N = 0, 1, 2, 3, 4, 5, 6, 7, 8, 128; "
                     "char / int8 / uint8 elements): assign_string(const char*) writes [begin, begin+L) then, per eos mode, "
                     "[begin+L, begin+N) (all), one NUL at begin+L only if L != N (single), nothing (none), asserts str != "
                     "nullptr and L <= N (non-strict) and returns begin+L; assign_range / assign(first,last) write exactly the "
                     "copied length and assert it is <= N; assign(n, v) / fill footprints; operator[] asserts pos < N; "
                     "strlen scans exactly [begin, begin+N) with memchr and returns the index of the first NUL or N; strlen_r "
                     "runs find_if over (rbegin, rend) of exactly the array and returns N - distance. No summary contains a "
                     "write at or beyond begin+N or before begin (footprints are compared exactly). Contents for all inputs "
                     "follow from the trusted std-algorithm summaries. Finding noted: the constant-evaluation branch of "
                     "strlen() scans with an unbounded loop (string_length) - not reachable at run time."),
        rule_text="instances = (operation row, (N, byte type, element type)); distinct by (row, instantiation)")

"""C09 - sbeppc is total: any input gives exit 0 or a diagnostic, never a crash."""
from common import *
import ghaz
import gtpl
import gtab
import gen
import schemas

LEVEL = "other"


def run(chk, tier):
    ghaz.check(chk)
    caught = ghaz.check_main(chk)
    ghaz.exception_escape(chk, caught)
    ghaz.check_include_recursion(chk)
    ghaz.check_header_lookup_siblings(chk)
    # the invariants of rules/haz_invariants.json are established by validator checks that sit behind memo guards
    # ("this header type was validated already"): those hold only while each memo cache belongs to one validator
    import gguard
    gguard.check_memo_caches(chk)
    # the generators re-check offsets while files are already being written (utils::get_valid_offset throws "custom offset
    # ... is less than minimal"): a rejected schema leaves no files behind only because the validator's own offset guards
    # reject first, for exactly the same inputs (an explicit offset - also 0 - below the running offset).  Linked
    # G-GUARD instances:
    gguard.check(chk, only_prefixes=["sbe_schema_validator::validate_field_offset | ",
                                     "sbe_schema_validator::validate_element_offset | ",
                                     "utils::get_valid_offset | ",
                                     # the other re-check of the generators: a char constant must fit its `length`, measured in
                                     # bytes by both sides
                                     "sbe_schema_validator::validate_constant_value | {}: constant length",
                                     "utils::make_string_constant | "], effects=False)
    import gcalls
    gcalls.check_order(chk)
    gtpl.check(chk)
    gtab.check(chk, gen.facts(), which=("keys",))
    root, results = schemas.generate_all()
    for name, r in sorted(results.items()):
        key = "generator-step:" + name
        if r["rc"] not in (0, 1):
            chk.violation("GEN.crash", key, r["xml"], "sbeppc terminated abnormally (status %s) on %s: %s" % (r["rc"], name, r["out"][-200:].strip()))
        else:
            chk.ok("GEN.crash", key, {"status": r["rc"]}, nontrivial=False)
    return chk.finish(
        explanation=("G-HAZ: every call in the sbeppc TU to an API with a precondition or a non-sbe_error exception "
                     "(std::get on variants, map/vector::at, optional dereference, front/back, string subscripts/substr, "
                     "dereference of get_if / nullable pointers, assert) is enumerated with resolved callees; each needs a "
                     "structurally dominating guard on the same object or a row of rules/haz_invariants.json whose "
                     "establishing validator check must still exist in the G-GUARD table. G-TPL: format strings are "
                     "literals (or forwarded parameters) and every replacement field is bound. main: handlers cover "
                     "std::exception and return non-zero; validators precede the compiler (no files for a rejected schema). "
                     "Recursion through <include> needs a visited-set test. Sibling rule: the three header-member lookups "
                     "resolve <ref>. G-CACHE: a validator's `already validated` cache is filled by that validator only, so a check "
                     "that establishes an invariant is not skipped for an entity validated in another role. Undefined behaviour in general, pugixml internals, memory exhaustion and hangs outside "
                     "these shapes are not decided."),
        rule_text="instances = hazard call sites, format calls, table key sets, main handlers")

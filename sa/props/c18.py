"""C18 - traits and tags mirror the schema."""
from common import *
import e4
import witness

LEVEL = "translation_validation"


def run(chk, tier):
    import gflow
    gflow.check_numeric_text(chk)
    gflow.check_free_text(chk)      # description / semanticType ... traits: text reaches the literal through an exact escaper
    gflow.check_declared_presence(chk)
    import ghaz
    ghaz.check_presence_rules(chk)      # what get_actual_presence may yield per kind of encoding      # presence() traits and everything else follow actual_presence
    e4.check(chk, ("traits",), tier)
    # type_traits<Tag>::min_value()/max_value()/null_value() return value_type's limits: those come from the XML
    # attribute or, when absent, from the generator's default tables, which must equal the SBE-derived constants
    import gtab
    gtab.check(chk, sbeppc_facts(), which=("keys", "literal"))
    e4.check(chk, ("minmaxnull",), tier, only=None if tier == "thorough" else ["vprims_le", "vprims_be", "test_schema", "traits_test_schema"])
    witness.check_tag_predicates(chk, tier)
    n = chk.rule_counts.get("E4.traits", 0)
    chk.floor("trait entities", n, 800)
    return chk.finish(
        explanation=("E4: every trait specialisation of every entity of the build set and corpus (schema, public and inline "
                     "types, refs, enums + values, sets + choices, composites, messages, fields, groups at any depth, data) "
                     "is read from the AST (returned literals, aliases, type_list contents) and compared with the XML model: "
                     "name, id, description, since/deprecated (deprecated() exists iff the attribute does), presence (SBE "
                     "actual-presence rules), length, offset (block / composite relative), block_length, semantic type, "
                     "character encoding, enum values, choice indexes, encoding types, header/dimension tags, children tag "
                     "lists in schema order; min/max/null of every user type equal the XML attribute or the SBE default (generated "
                     "limits, and the generator's default tables row by row against the library constants); every tag is reachable at its documented path (name anchors). Type-level "
                     "witnesses: exactly one tag-kind predicate holds per tag, traits_tag<value_type> round-trips."),
        rule_text="programs = schemas; cases = entities",
        extra_cov={"programs": chk.extra.get("programs", 0), "disagreements_checked": n})

"""C19 - visiting and tag-based access enumerate members faithfully."""
from common import *
import e4
import spec_visit
from props._lib import lib_for

LEVEL = "translation_validation"


def run(chk, tier):
    # visiting walks entries with a cursor: every entry must hand the cursor over to its successor (E4.cursor, incl. the
    # generated constructor of entries without cursor-moving members)
    # which members are visited is decided by field_context::actual_presence in every generator (never by the declared
    # attribute of the <field>, which the validator lets the encoding override)
    import gflow
    gflow.check_declared_presence(chk)
    import ghaz
    ghaz.check_presence_rules(chk)      # what get_actual_presence may yield per kind of encoding
    e4.check(chk, ("visit", "cursor"), tier)
    # visiting a set: every choice, through its own getter and with its own tag, in declaration order
    import schemas
    import spec_set
    root_, _ = schemas.generate_all()
    spec_set.check(chk, lib_for("vprims_le"), root_)
    for name in (["vlayout", "vprims_le"] + (["vheaders", "test_schema", "vnames"] if tier == "thorough" else [])):
        spec_visit.check(chk, lib_for(name))
    n = chk.rule_counts.get("E4.visit", 0)
    chk.floor("visit entities", n, 150)
    return chk.finish(
        explanation=("E4: generated visit_children of every message, entry and composite of the build set and corpus: the "
                     "returned expression is a chain of logical-or (||, so evaluation stops at the first true callback) whose "
                     "operands, in order, are exactly the non-constant members in schema order, each `v.on_X(this->NAME(c), "
                     "TAG{})` with the member's own accessor and own tag; enum tag_invoke has one case per validValue with its "
                     "tag and a default reporting unknown_enum_value_tag; set visit enumerates every choice with its getter. "
                     "Library: group visit_children returns at the first true on_entry (E2 paths), visit/visit_children "
                     "forward to the view's own operator(), by-tag accessors forward name and arguments unchanged."),
        rule_text="programs = schemas; cases = levels, composites, enums, sets",
        extra_cov={"programs": chk.extra.get("programs", 0), "disagreements_checked": n})

"""C12 - group views obey iterator and container laws for every dimension type."""
from common import *
import schemas
import spec_group
import rint
from props._lib import lib_for, is_lib_or_gen

LEVEL = "other"


def run(chk, tier):
    root, _ = schemas.generate_all()
    plan = [("vdims", "c++17")]
    if tier == "thorough":
        plan += [("vheaders", "c++17"), ("vlayout", "c++17"), ("vdims", "c++20"), ("vdims", "c++11"), ("test_schema", "c++17")]
    # the configuration without size checks compiles different (#else) constructors of entries / iterators / ranges:
    # same geometry rows, `end` and assertion clauses left out
    spec_group.check_iterators(chk, lib_for("vdims", "c++17", asserts=False), limit=None if tier == "thorough" else 8)
    for name, std in plan:
        lib = lib_for(name, std)
        spec_group.check_groups(chk, lib)
        spec_group.check_iterators(chk, lib)
        r = rint.RInt(chk, lib.facts, lib.label, ("S1", "S5", "S6"))
        r.run(lambda f: is_lib_or_gen(f, root) and ("group_base" in (f.get("cls_tpl") or "") or "iterator" in (f.get("cls_tpl") or "")
                                                       or "cursor_range" in (f.get("cls_tpl") or "")
                                                       # friend operators of the iterators (not class members)
                                                       or (f["name"].startswith("operator") and "iterator<" in ((f.get("params") or [{}])[0].get("t") or ""))))
        chk.extra.setdefault("rint_sinks", 0)
        chk.extra["rint_sinks"] += r.n_sinks
    chk.floor("GRP rows", chk.rule_counts.get("GRP", 0), 600)
    chk.floor("ITER rows", chk.rule_counts.get("ITER", 0), 600)
    chk.floor("R-INT sinks", chk.extra.get("rint_sinks", 0), 150)
    return chk.finish(
        explanation=("(1) affine spec rows for flat/nested group bases, random-access / forward / input iterators and "
                     "cursor ranges for all 16 (numInGroup, blockLength) type pairs x flat/nested: begin/end/operator[]/"
                     "front/back addresses (A+H+i*BL with wire BL), ++ -- += -= + - [] as identities on (ptr, index), "
                     "comparisons and differences on index only (zero-length blocks), resize/clear write exactly "
                     "numInGroup, preconditions asserted with the documented strictness; laws like (it+n)-n == it then hold "
                     "as algebra over the rows. (2) R-INT: interval arithmetic over the C++ conversion rules on every "
                     "pointer-offset computation and every argument converted to a parameter that reaches pointer "
                     "arithmetic: a node is flagged when header values exist for which the computation type overflows or "
                     "a conversion changes the value (per-pair promotion/wrap differences live here)."),
        rule_text="instances = (row or sink, instantiation); distinct by (row, dimension types)")

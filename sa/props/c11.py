"""C11 - read-only views cannot mutate the buffer."""
from common import *
import schemas
import witness
import e4

LEVEL = "proof"


def run(chk, tier):
    root, results = schemas.generate_all()
    ss = {s.name: s for s in schemas.all_schemas()}
    names = ["vlayout", "vheaders", "vprims_le", "vnames"]
    cfgs = [("c++17", "clang++")]
    if tier == "thorough":
        names = [s.name for s in schemas.all_schemas()]
        cfgs = [("c++17", "clang++"), ("c++11", "clang++"), ("c++20", "clang++"), ("c++17", "g++"), ("c++11", "g++"), ("c++23", "g++")]
    n_neg = n_conv = n_cast = 0
    for name in names:
        try:
            schemas.schema_facts(ss[name])      # the positive witness TU (harness) must type-check before anything else
        except AnalysisBroken as e:
            errs = [l for l in str(e).splitlines() if "error:" in l]
            if not errs:
                raise
            chk.violation("W-POS", "harness:%s" % name, ss[name].xml,
                          "the positive witness TU of %s (all read-only members with const bytes; getters with const cursors on "
                          "mutable views) does not compile: %s" % (name, "; ".join(x.strip()[-220:] for x in errs[:2])))
            continue
        for std, comp in cfgs:
            if comp == "g++" and name not in ("vlayout", "vheaders", "test_schema"):
                continue
            n_neg += witness.check_c11_schema(chk, ss[name], root, std, comp)
        try:
            lib = e4.lib_of(ss[name])
        except AnalysisBroken as e:
            # the harness TU is the positive witness: every non-mutating member of every view with const bytes, and every
            # getter through const cursors on mutable views, must type-check.  A compiler error in it (not a tool failure)
            # means a read-only use the library documents no longer compiles
            errs = [l for l in str(e).splitlines() if "error:" in l]
            if not errs:
                raise
            chk.violation("W-POS", "harness:%s" % name, ss[name].xml,
                          "the positive witness TU of %s (all read-only members with const bytes; getters with const cursors on "
                          "mutable views) does not compile: %s" % (name, "; ".join(x.strip()[-200:] for x in errs[:2])))
            continue
        n_conv += witness.check_c11_conversions(chk, ss[name], root, lib)
        n_cast += witness.check_no_const_removal(chk, lib, root)
    n_cv = 0
    for std, comp in ([("c++17", "clang++"), ("c++11", "clang++")] + ([("c++20", "clang++"), ("c++14", "g++"), ("c++17", "g++"), ("c++23", "g++")] if tier == "thorough" else [])):
        n_cv += witness.check_cv_witness(chk, root, std, comp)
    chk.floor("cv witnesses", n_cv, 100)
    obligations = n_neg + n_conv + n_cast + n_cv
    discharged = obligations - len(chk.violations)
    chk.floor("negative witnesses", n_neg, 1500)
    chk.floor("cast sites", n_cast, 20)
    return chk.finish(
        explanation=("Type system as the prover. (1) negative witnesses generated from the XML model for every schema entity: "
                     "each mutating call form (field / composite-element setters, set_by_tag, cursor setters with every "
                     "wrapper kind, fixed-array assign*/fill/element stores, data clear/resize/push/pop/erase/insert/assign*, "
                     "group resize/clear, fill_group_header, fill_message_header) on a const-byte view, and cursor setters "
                     "with a const cursor on a mutable view, must be rejected by the compiler - one statement per line in a "
                     "batched TU, each line must own an error and no other line may; (2) conversion witnesses "
                     "(is_convertible / is_constructible / is_assignable): views and cursors convert only towards const; (3) "
                     "AST rule over all instantiations with Byte = const char: no C-style/const/reinterpret cast makes a "
                     "pointee less const, no mutable member; (4) W-CV: for every cv-qualification of the byte type (const, volatile, const volatile) the "
                     "element, reference, pointer and iterator types of both array references are const exactly when the byte type "
                     "is (type computations only); with C++ const-correctness (1)-(3) imply no getter, size query, "
                     "iterator or visit call can write. The harness TU instantiates every non-mutating member with const "
                     "bytes (must compile: it is the facts source)."),
        rule_text="obligation = one witness line / conversion assertion / cast site; discharged by the compiler's type checker",
        extra_cov={"obligations": obligations, "discharged": discharged,
                   "checker_cmd": "clang++ -fsyntax-only -ferror-limit=0 <witness TU> (diagnostics attributed per line); sa/witness.py",
                   "trusted_base": ["clang++ 14 / g++ 12 type checkers", "libTooling fact extractor (cast enumeration)",
                                    "the XML model enumerates every entity (cross-checked by E4 against generated code)"]})

"""C01 - encoding writes exactly the SBE wire image of the schema."""
from common import *
import e4
import spec_codec
import spec_layout
from props._lib import lib_for

LEVEL = "other"


def run(chk, tier):
    import gflow
    gflow.check_numeric_text(chk)
    import gtab
    # generator tables: primitive name -> C++ type / size / wrapper class (value_type and signedness of what getters return)
    gtab.check(chk, sbeppc_facts(), which=("keys", "sizes", "wrapper"))
    for name, std in ([("vprims_le", "c++17"), ("vprims_be", "c++17")] +
                      ([("vprims_be", "c++20"), ("vprims_le", "c++20"), ("vprims_be", "c++11"), ("vdims", "c++17"), ("vheaders", "c++17")] if tier == "thorough"
                       else [("vprims_be", "c++20"), ("vprims_le", "c++20")])):
        spec_codec.check(chk, lib_for(name, std), ("set",))
    # where the next variable-length member is written follows from size_bytes of the one before it: the group size rows
    # (H + numInGroup * blockLength computed without truncation, nested sizes, first member at level + wire blockLength)
    import spec_group
    glib = lib_for("vdims", "c++17")
    spec_group.check_groups(chk, glib, limit=None if tier == "thorough" else 8)
    spec_group.check_bases(chk, glib, limit=None if tier == "thorough" else 8)
    spec_layout.check_validator_recurrence(chk)
    # set choice setters write one bit of the field: shift rule (mask computed in the set's width) and mask rows
    import rint
    import schemas
    import spec_set
    from props._lib import is_lib_or_gen
    root, _ = schemas.generate_all()
    slib = lib_for("vprims_le", "c++17")
    rint.RInt(chk, slib.facts, slib.label, ("S4",)).run(
        lambda f: is_lib_or_gen(f, root) and (f.get("cls_tpl") == "sbepp::detail::bitset_base"))
    spec_set.check(chk, slib, root)
    e4.check(chk, ("accessors", "cursor", "fillers"), tier)
    chk.floor("CODEC.set instantiations", chk.rule_counts.get("CODEC.set", 0), 40)
    chk.floor("E4.accessor entities", chk.rule_counts.get("E4.accessor", 0), 400)
    return chk.finish(
        explanation=("(1) codec: every set_primitive<E,T> instantiation (11 primitives, enums, both byte orders, memcpy+bswap "
                     "path under C++11-17 and bit_cast/reverse_copy path under C++20) performs exactly one WRITE(ptr, sizeof T) "
                     "whose data is the argument, byte-reversed iff E != native and sizeof>1 (E2 summary vs the SBE encoding "
                     "table). (2) setters and cursor setters write exactly [base+off, +size) (cursor rows are C04). "
                     "(3) validator layout recurrence: validate_field_offset / validate_element_offset never place a "
                     "member below the running offset and advance it by the member size; validate_block_length stores "
                     "max(custom, minimum) with the strict guard custom < minimum => error (structural rule on the AST: "
                     "guard + assignments). (4) E4 on the corpus: each generated getter/setter/cursor accessor of every "
                     "message, entry and composite reads/writes offset, width and byte order of the independent XML model; "
                     "header fillers write the schema constants. Whole encode scripts (composition over run-time counts) are "
                     "not decided."),
        rule_text="instances = codec instantiations, validator rule sites, generated accessors of the corpus")

"""Spec table of the cursor protocol (C04, with the wire-geometry clause of C03):
5 cursor kinds x 10 accessor primitives.  Written from doc/ (cursor-accessors:
plain cursor reads at its position and moves past the member; init reads at the
absolute position and moves past it; dont_move leaves the cursor where it is;
init_dont_move positions the cursor at the member without consuming it; skip
moves without reading) - not from the code.  Every instantiation present in
the facts is summarised by E2 and compared as equality of linear forms.
"""
from common import *
import rint
from symex import *
from libsum import *
import spec_codec

KINDS = {
    "sbepp::cursor": "plain",
    "sbepp::detail::init_cursor_wrapper": "init",
    "sbepp::detail::init_dont_move_cursor_wrapper": "init_dont_move",
    "sbepp::detail::dont_move_cursor_wrapper": "dont_move",
    "sbepp::detail::skip_cursor_wrapper": "skip",
}
NAMES = ["get_value", "set_value", "get_last_value", "set_last_value", "get_static_field_view",
         "get_last_static_field_view", "get_first_group_view", "get_first_data_view",
         "get_group_view", "get_data_view"]


def targ(fn, i):
    ta = fn.get("targs") or []
    return ta[i] if i < len(ta) else None


def view_cls(fn):
    for p in fn.get("params") or []:
        if p["name"] == "view":
            return rint.clean(p["t"])
    # unnamed view parameter (/*view*/): first class-type parameter
    ps = fn.get("params") or []
    return rint.clean(ps[0]["t"]) if ps else None


def unnamed_view_fix(fn):
    """the extractor gives unnamed parameters an empty name; name them."""
    for p in fn.get("params") or []:
        if p["name"] == "":
            p["name"] = "_unnamed%d" % p["did"]


def cursor_after(kind, path):
    th = path.post["this"]
    if kind == "plain":
        return th.get("ptr")
    c = th.get("cursor")
    if isinstance(c, Ptr):
        return c.target.get("ptr")
    raise AnalysisBroken("wrapper without cursor pointer")


def check(chk, lib, limit_per_row=None):
    """evaluate every instantiation of the 50 rows found in lib"""
    n_rows = {}
    for cls_tpl, kind in KINDS.items():
        P = sym("this.ptr") if kind == "plain" else sym("this.cursor->.ptr")
        for name in NAMES:
            fns = lib.fns(cls_tpl, name)
            seen_sig = set()
            for fn in fns:
                unnamed_view_fix(fn)
                vc = view_cls(fn)
                sig = (tuple(fn.get("targs") or []), fn.get("cls"))
                if sig in seen_sig:
                    continue
                seen_sig.add(sig)
                rowkey = "%s.%s" % (kind, name)
                n_rows[rowkey] = n_rows.get(rowkey, 0) + 1
                if limit_per_row and n_rows[rowkey] > limit_per_row:
                    continue
                try:
                    check_one(chk, lib, fn, kind, name, P, vc)
                except AnalysisBroken as e:
                    chk.broke("cursor row %s on %s: %s" % (rowkey, fn["qn"][:160], e))
    return n_rows


def level_end(lib, vc):
    lvl, _ = lib.tag_call(vc, "get_level_tag")
    bl, _ = lib.tag_call(vc, "get_block_length_tag")
    return lin(lvl) + lin(bl)


def check_one(chk, lib, fn, kind, name, P, vc):
    s = lib.summary(fn)
    live = s.live
    rule = "CUR." + kind
    key = "%s|%s|%s" % (kind, name, "/".join((fn.get("targs") or [])[:3]) + "@" + (vc or "").split("::")[-1])
    wh = where(fn)

    def bad(msg, **extra):
        chk.violation(rule, "%s.%s" % (kind, name), wh,
                      "cursor row %s.%s, instantiation %s: %s" % (kind, name, fn["qn"][:200], msg), extra)
    if len(live) != 1:
        if kind == "skip" and name in ("get_first_group_view", "get_group_view") and len(live) > 1:
            chk.notes.append("skip over nested group %s: %d paths (loop), row not compared" % ((targ(fn, 0) or "")[-50:], len(live))) \
                if len(chk.notes) < 20 else None
            return
        return bad("expected one straight-line path, found %d" % len(live))
    p = live[0]
    A, E = sym("view.begin"), sym("view.end")
    off, ab = sym("offset"), sym("absolute_offset")
    uses_P = kind in ("plain", "dont_move", "skip")
    after = cursor_after(kind, p)
    wrong_cursor = [e for e in asserts(p) if "SBEPP_SIZE_CHECK" not in e[3]]
    errs = []
    is_field = name in NAMES[:6]
    if is_field:
        X = (P + off) if uses_P else (A + ab)
        # --- wrong-cursor assertion
        want_assert = cmp_term("==", A + ab, P + off)
        has = any(lin(e[1]) == want_assert for e in wrong_cursor)
        if uses_P and not has:
            errs.append("missing assertion `view.begin + absolute_offset == cursor + offset` (found %s)"
                        % [show(e[1]) for e in wrong_cursor])
        if not uses_P and wrong_cursor:
            errs.append("spurious cursor assertion %s for an init kind" % [show(e[1]) for e in wrong_cursor])
        if uses_P and has:
            # must come before any buffer access and before the cursor moves
            ia = [i for i, e in enumerate(p.events) if e[0] == "assert" and lin(e[1]) == want_assert][0]
            first_acc = [i for i, e in enumerate(p.events) if e[0] in ("read", "write")]
            if first_acc and first_acc[0] < ia:
                errs.append("buffer access precedes the wrong-cursor assertion")
        # --- access
        if name in ("get_value", "get_last_value", "set_value", "set_last_value"):
            if name.startswith("get"):
                U = targ(fn, 1)
            else:
                U = targ(fn, 1)   # set_value<E, T, View>
            size = type_size(U, lib.eng)
            if size is None:
                raise AnalysisBroken("size of %s unknown" % U)
        else:
            size = 0
        acc = [e for e in p.events if e[0] in ("read", "write")]
        level_reads = []
        if name.startswith("get") and size and kind != "skip":
            mine = [e for e in acc if e[0] == "read" and lin(e[1]) == X]
            if not mine or lin(mine[0][2]) != Lin.const(size):
                errs.append("expected READ(%s, %d); accesses: %s" % (show(X), size, [(e[0], show(e[1]), show(e[2])) for e in acc]))
            E_tpl = targ(fn, 2)
            want_rev = (E_tpl.split("::")[-1] != spec_codec.native_order(lib))
            rv = p.ret
            val = None
            if isinstance(rv, Obj):
                val = rv.fields.get("val", rv.fields.get("bits"))
            elif isinstance(rv, Lin):
                val = rv
            want = Lin.atom(("wire", X, size, want_rev and size > 1))
            if val is None or lin(val) != want:
                errs.append("returned value %s, expected %s" % (show(val) if val is not None else None, show(want)))
        elif name.startswith("set"):
            mine = [e for e in acc if e[0] == "write"]
            if len(mine) != 1 or lin(mine[0][1]) != X or lin(mine[0][2]) != Lin.const(size):
                errs.append("expected exactly WRITE(%s, %d); writes: %s" % (show(X), size, [(show(e[1]), show(e[2])) for e in mine]))
            else:
                E_tpl = targ(fn, 0)
                want_rev = (E_tpl.split("::")[-1] != spec_codec.native_order(lib)) and size > 1
                data = mine[0][3]
                v = sym("value")
                want = bswap_of(v, size) if want_rev else v
                if not (isinstance(data, Lin) and data == want):
                    errs.append("written data %s, expected %s" % (show(data), show(want)))
        if kind == "skip" and [e for e in acc if lin(e[1]) == X]:
            errs.append("skip must not access the field")
        if name.startswith("get") and [e for e in acc if e[0] == "write"]:
            errs.append("getter writes: %s" % [(show(e[1]), show(e[2])) for e in acc if e[0] == "write"])
        # --- size check on the access base
        want_chk = ("<=", X + size - E)
        chks = []
        for e in size_checks(p):
            chks += conjuncts(e[1])
        if want_chk not in chks:
            errs.append("missing SIZE_CHECK `%s + %d <= view.end` (checks: %s)" % (show(X), size, ["%s%s0" % (show(f), o) for o, f in chks]))
        # --- cursor after
        if name in ("get_static_field_view", "get_last_static_field_view"):
            res_t = targ(fn, 0)
            sz, _ = lib.tag_call(res_t, "size_bytes_tag", "res")
            S = lin(sz)
            if not S.is_const():
                raise AnalysisBroken("static view size not constant: %s" % show(S))
            if kind != "skip":
                rv = p.ret
                if not isinstance(rv, Obj) or lin(rv.get("begin")) != X or lin(rv.get("end")) != E:
                    errs.append("returned view %s, expected {%s, view.end}" % (show(rv), show(X)))
        else:
            S = Lin.const(size)
        last = "last" in name
        if kind == "dont_move":
            want_after = P
        elif kind == "init_dont_move":
            want_after = A + ab - off
        elif last:
            want_after = level_end(lib, vc)
        else:
            want_after = X + S
        if lin(after) != lin(want_after):
            errs.append("cursor after = %s, expected %s" % (show(after), show(want_after)))
    else:
        res_t = targ(fn, 0)
        first = "first" in name
        is_group = "group" in name
        if first:
            base = level_end(lib, vc)
            if wrong_cursor:
                errs.append("spurious cursor assertion on the first variable-length member")
        else:
            G = sym("getter().begin")
            if uses_P:
                base = P
                want_assert = cmp_term("==", G, P)
                if not any(lin(e[1]) == want_assert for e in wrong_cursor):
                    errs.append("missing assertion `getter() address == cursor` (found %s)" % [show(e[1]) for e in wrong_cursor])
            else:
                base = G
                if wrong_cursor:
                    errs.append("spurious cursor assertion for an init kind")
        # geometry of the member view at `base`
        robj = Obj(rint.clean(res_t), "res", symbolic=True)
        if is_group:
            hdr, _ = lib.tag_call(res_t, "get_header_tag", "res")
            hsz, _ = lib.tag_call(rint.clean(hdr.cls), "size_bytes_tag", "hdr")
            H = lin(hsz)
        rename = {("sym", "res.begin"): base, ("sym", "res.end"): E if (uses_P or first) else sym("getter().end")}
        full = None
        if kind == "skip" or (not is_group and kind in ("plain", "init")):
            try:
                full, fp = lib.tag_call(res_t, "size_bytes_tag", "res")
            except AnalysisBroken:
                # nested group: its size is a loop over entries, not a linear form
                chk.notes.append("skip row over a nested group not compared (size is a loop): %s" % res_t[-60:]) \
                    if len(chk.notes) < 20 else None
                return
        if kind == "skip":
            if len(live) != 1:
                return
            want_after = base + subst(lin(full), rename)
        elif kind in ("dont_move", "init_dont_move"):
            want_after = base if (first or kind == "init_dont_move") else P
        else:
            want_after = base + (H if is_group else subst(lin(full), rename))
        if kind != "skip":
            rv = p.ret
            want_end = E if (uses_P or first) else sym("getter().end")
            if not isinstance(rv, Obj) or lin(rv.get("begin")) != lin(base) or lin(rv.get("end")) != want_end:
                errs.append("returned view %s, expected {%s, %s}" % (show(rv), show(base), show(want_end)))
        if want_after is not None and lin(after) != lin(want_after):
            errs.append("cursor after = %s, expected %s" % (show(after), show(want_after)))
        if [e for e in p.events if e[0] == "write"]:
            errs.append("view accessor writes to the buffer")
    if errs:
        bad("; ".join(errs), summary=[(e[0],) + tuple(show(x) if isinstance(x, Lin) else str(x) for x in e[1:3]) for e in p.events])
    else:
        chk.ok(rule, key, {"function": fn["qn"][:160], "where": wh, "cursor_after": show(after),
                           "events": [(e[0], show(e[1])) for e in p.events if e[0] in ("read", "write", "assert")][:6]})


def fp_is_linear(v):
    return isinstance(v, Lin)


def subst(l, mapping):
    """substitute atoms (also inside wire addresses and products) by linear forms"""
    l = lin(l)
    out = Lin.const(l.k)
    for a, c in l.terms:
        out = out + subst_atom(a, mapping).scale(c)
    return out


def subst_atom(a, mapping):
    if a in mapping:
        return lin(mapping[a])
    if a[0] == "wire":
        return Lin.atom(("wire", subst(a[1], mapping), a[2], a[3]))
    if a[0] == "mul":
        r = Lin.const(1)
        for f in a[1]:
            r = r * subst_atom(f, mapping)
        return r
    if a[0] in ("cast", "bswap"):
        return Lin.atom(tuple(subst(x, mapping) if isinstance(x, Lin) else x for x in a))
    return Lin.atom(a)


def bswap_of(v, size):
    return Lin.atom(("bswap", size, v))

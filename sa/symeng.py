"""Engine of the E2 analyser: function/record index over one facts file,
call and constructor inlining, summaries of the standard-library primitives,
decision-replay driver (all paths, depth first)."""
import re

from common import *
import rint
from symex import *

class SelfRecursion(Exception):
    """a function reaches itself again and again on one path: it never returns"""
    def __init__(self, fn):
        Exception.__init__(self, fn.get("qn", "?"))
        self.fn = fn


MAX_DEPTH = 60
MAX_PATHS = 4000


def std_array_n(t):
    m = re.match(r"(?:array:)?(?:const )?std::array<(.*), (\d+)>$", t)
    if m:
        return m.group(1), int(m.group(2))
    return None


class Engine:
    def __init__(self, facts):
        self.facts = facts
        self.fns = {}
        for f in facts["functions"]:
            if f.get("key") and f.get("body") is not None and not f.get("dependent"):
                self.fns.setdefault(f["key"], f)
        self.records = {r["qn"]: r for r in facts["records"] if not r.get("dependent")}
        self.enum_underlying = {e["qn"]: e["underlying"] for e in facts.get("enums", [])}
        self._ft = {}
        self.steps = 0
        self.step_limit = 60000

    # ------------------------------------------------------------- type info
    def record(self, t):
        return self.records.get(rint.clean(t))

    def is_class(self, t):
        t = rint.clean(t)
        if not t or t.endswith("*") or t in ("void", "float", "double", "bool", "std::nullptr_t", "long double"):
            return False
        if rint.int_info(t) is not None or t in self.enum_underlying:
            return False
        if t in self.records:
            return True
        if t.startswith("(lambda"):
            return True
        if "(" in t:        # function types
            return False
        return "::" in t or "<" in t

    def field_type(self, cls, f, seen=None):
        key = (cls, f)
        if key in self._ft:
            return self._ft[key]
        r = self.record(cls)
        res = None
        if r:
            for fd in r["fields"]:
                if fd["name"] == f:
                    res = fd["t"]
                    break
            if res is None:
                for b in r["bases"]:
                    res = self.field_type(b, f)
                    if res:
                        break
        self._ft[key] = res
        return res

    def all_fields(self, cls):
        r = self.record(cls)
        out = []
        if r:
            for b in r["bases"]:
                out += self.all_fields(b)
            out += r["fields"]
        return out

    def default_object(self, t, ex, fr, name=None):
        t = rint.clean(t)
        sa = std_array_n(t)
        if sa:
            return Obj("array:" + t, name)
        o = Obj(t, name)
        for fd in self.all_fields(t):
            if fd.get("init") is not None:
                f2 = Frame({"name": "<init>"}, o)
                v = ex.rvalue(fd["init"], f2)
                o.fields[fd["name"]] = v.clone() if isinstance(v, Obj) else v
        return o

    def global_value(self, n, ex):
        qn = n.get("qn")
        for v in self.facts.get("vars", []):
            if v["qn"] == qn and v.get("init") is not None:
                if self.is_class(v["t"]):
                    return Obj(rint.clean(v["t"]), qn)
                return ex.rvalue(v["init"], Frame({"name": "<global>"}, None))
        return Lin.atom(("global", qn))

    # ----------------------------------------------------------------- calls
    def bind_args(self, ex, fn, args, fr, new):
        ps = fn.get("params") or []
        for i, p in enumerate(ps):
            if i >= len(args):
                # defaulted argument evaluated by caller normally; absent here
                new.vars[p["did"]] = ("undef", p["name"])
                continue
            a = args[i]
            if p.get("ref"):
                v = ex.eval(a, fr)
                if isinstance(v, (Loc, MemLoc, Obj)):
                    new.vars[p["did"]] = RefBox(v)
                else:
                    new.vars[p["did"]] = v
            else:
                v = ex.rvalue(a, fr)
                if isinstance(v, Obj):
                    v = v.clone(p["name"])
                new.vars[p["did"]] = v

    def run_body(self, ex, fn, new):
        if ex.depth > MAX_DEPTH:
            # the library has no recursion over one instantiation: the same function on the inline stack many times
            # is a function that reaches itself unconditionally
            nm = rint.fn_name(fn)
            if ex.fstack.count(nm) >= MAX_DEPTH // 2 and fn.get("key") and getattr(ex, "kstack", []).count(fn["key"]) >= MAX_DEPTH // 2:
                raise SelfRecursion(fn)
            raise Unsupported("inlining depth exceeded at %s" % fn.get("qn"))
        ex.depth += 1
        ex.fstack.append(rint.fn_name(fn))
        if not hasattr(ex, "kstack"):
            ex.kstack = []
        ex.kstack.append(fn.get("key"))
        try:
            ex.exec(fn["body"], new)
            return None
        except Return as r:
            return r.v
        finally:
            ex.depth -= 1
            ex.fstack.pop()
            ex.kstack.pop()

    def this_of(self, ex, n, fr):
        objn = n.get("obj")
        if objn is None:
            return None
        if n.get("arrow"):
            p = ex.rvalue(objn, fr)
            if isinstance(p, Ptr):
                t = p.target
                if isinstance(t, Loc):
                    t = ex.load(t)
                return t
            raise Unsupported("-> on %r line %s" % (p, n.get("l")))
        v = ex.eval(objn, fr)
        if isinstance(v, Loc):
            v = ex.load(v)
        if isinstance(v, Ptr):
            v = v.target
        return v

    def call(self, ex, n, fr):
        c = n.get("callee")
        args = n.get("args") or []
        if c is None:
            fe = n.get("fnexpr")
            raise Unsupported("unresolved call at line %s" % n.get("l"))
        base = c.get("base", "")
        name = c.get("name", "")
        bi = BUILTINS.get(base) or BUILTINS.get(name if c.get("builtin") else "")
        if bi is not None:
            return bi(self, ex, n, fr, c, args)
        if c.get("builtin") and name.startswith("__builtin_bswap"):
            return bi_bswap(self, ex, n, fr, c, args)
        fn = self.fns.get(c.get("key"))
        this = self.this_of(ex, n, fr)
        if fn is None:
            return self.extcall(ex, n, fr, c, this, args)
        if fn.get("lambda") and not isinstance(this, Closure):
            # a closure we know nothing about (symbolic parameter): its call is
            # an uninterpreted value of the declared result type
            rt = rint.clean(c.get("ret"))
            nm = (this.name if isinstance(this, Obj) else "closure") + "()"
            if self.is_class(rt):
                return Obj(rt, nm, symbolic=True)
            return sym(nm)
        if fn.get("lambda"):
            clo = this
            new = Frame(fn, clo.fields.get("__this") if isinstance(clo, Obj) else None)
            new.closure = clo
            if isinstance(clo, Closure) and clo.fields.get("__this") is None:
                new.this = clo
        else:
            new = Frame(fn, this)
        if fn.get("ctor"):
            raise Unsupported("ctor through call")
        self.bind_args(ex, fn, args, fr, new)
        v = self.run_body(ex, fn, new)
        if name == "operator=" and v is None and this is not None:
            return this
        return v

    def extcall(self, ex, n, fr, c, this, args):
        """a callee outside the analysed roots (libstdc++): uninterpreted"""
        vals = []
        for a in args:
            v = ex.eval(a, fr)
            if isinstance(v, (Loc, MemLoc)):
                v = ex.load(v)
            vals.append(freeze(v))
        qn = c.get("base") or c.get("qn")
        if c.get("defaulted") or (c.get("name") == "operator=" and this is not None and c.get("hasbody") is False):
            # defaulted special member: memberwise
            if c.get("name") == "operator=" and isinstance(this, Obj) and args:
                src = ex.rvalue(args[0], fr)
                if isinstance(src, Obj):
                    this.fields = dict(src.clone().fields)
                    return this
        if isinstance(this, Obj) and this.cls == "ilist" and c.get("name") == "size":
            return this.fields["n"]
        if isinstance(this, Obj) and this.cls == "ilist" and c.get("name") in ("begin", "end"):
            arr = this.fields["arr"]
            return Ptr(arr, 0 if c.get("name") == "begin" else this.fields["n"].k)
        rt = rint.clean(c.get("ret"))
        ex.event("extcall", qn, freeze(this) if this is not None else None, tuple(vals))
        if rt == "void":
            return None
        if self.is_class(rt):
            o = Obj(rt)
            o.fields["__ext"] = ("extobj", qn, freeze(this) if this is not None else None, tuple(vals))
            return o
        return Lin.atom(("call", qn, freeze(this) if this is not None else None) + tuple(vals))

    def construct(self, ex, n, fr, target):
        c = n.get("callee") or {}
        t = rint.clean(n.get("t"))
        args = n.get("args") or []
        if t == "ilist":
            raise Unsupported("ilist ctor")
        if c.get("copymove") and (c.get("trivial") or c.get("implicit") or c.get("defaulted") or c.get("key") not in self.fns):
            v = ex.eval(args[0], fr)
            if isinstance(v, Loc):
                v = ex.load(v)
            if isinstance(v, Obj):
                o = v.clone()
                if target is not None:
                    target.fields.update(o.fields)
                    if o.symbolic:
                        target.symbolic = True
                        target.name = o.name
                    return target
                if o.cls != t and self.record(t) is not None and not o.cls.startswith("array:"):
                    o.cls_static = t
                return o
            raise Unsupported("copy of non-object %r line %s" % (v, n.get("l")))
        sa = std_array_n(t)
        if sa and not args:
            return Obj("array:" + t)
        fn = self.fns.get(c.get("key"))
        if fn is None and c.get("inherited_from"):
            fn = self.fns.get(c["inherited_from"])
            if fn is None:
                raise Unsupported("inherited constructor body missing for %s" % t)
        if fn is None:
            if not args and (c.get("defctor") or c.get("trivial") or c.get("implicit") or c.get("defaulted")):
                o = target if target is not None else self.default_object(t, ex, fr)
                if target is not None:
                    d = self.default_object(t, ex, fr)
                    for k2, v2 in d.fields.items():
                        target.fields.setdefault(k2, v2)
                return o
            # external class (libstdc++): uninterpreted object
            vals = []
            for a in args:
                v = ex.eval(a, fr)
                if isinstance(v, (Loc, MemLoc)):
                    v = ex.load(v)
                vals.append(freeze(v))
            o = Obj(t)
            o.fields["__ext"] = ("ctor", t, tuple(vals))
            return o
        if target is None:
            o = self.default_object(t, ex, fr)
        else:
            o = target
            d = self.default_object(fn.get("cls", t), ex, fr)
            for k2, v2 in d.fields.items():
                o.fields.setdefault(k2, v2)
        new = Frame(fn, o)
        self.bind_args(ex, fn, args, fr, new)
        for ini in fn.get("inits") or []:
            ie = ini.get("init")
            if ie is None:
                continue
            if ini.get("member"):
                if ie.get("k") in ("CXXConstructExpr", "CXXTemporaryObjectExpr"):
                    v = self.construct(ex, ie, new, None)
                else:
                    v = ex.rvalue(ie, new)
                o.fields[ini["member"]] = v.clone() if isinstance(v, Obj) else v
            elif ini.get("basecls") or ini.get("delegating"):
                if ie.get("k") in ("CXXConstructExpr", "CXXTemporaryObjectExpr"):
                    self.construct(ex, ie, new, o)
                elif ie.get("k") == "CXXInheritedCtorInitExpr":
                    raise Unsupported("inherited ctor init expr")
                else:
                    v = ex.rvalue(ie, new)
                    if isinstance(v, Obj):
                        o.fields.update(v.clone().fields)
        self.run_body(ex, fn, new)
        return o

    # ------------------------------------------------------------- summaries
    def symbolic_arg(self, p, ex):
        t = rint.clean(p["t"])
        base_t = t[:-2].strip() if t.endswith("&&") else t[:-1].strip() if t.endswith("&") else t
        base_t = rint.clean(base_t)
        if self.is_class(base_t):
            o = Obj(base_t, p["name"], symbolic=True)
            return RefBox(o) if p.get("ref") else o
        if base_t.endswith("*") and self.is_class(pointee(base_t)):
            return Ptr(Obj(pointee(base_t), p["name"] + "->", symbolic=True))
        v = sym(p["name"])
        if p.get("ref"):
            box = {}
            box[p["name"]] = v
            return RefBox(Loc(box, p["name"]))
        return v

    def summarise(self, fn, max_paths=MAX_PATHS, this_name="this", arg_values=None, this_obj=None):
        """all paths of one function from symbolic inputs"""
        paths = []
        stack = [[]]
        self.steps = 0
        while stack:
            pre = stack.pop()
            ex = Exec(self, pre)
            this = None
            if fn.get("cls") and not fn.get("static"):
                this = this_obj.clone() if this_obj is not None else Obj(fn["cls"], this_name, symbolic=True)
            fr = Frame(fn, this)
            refs = {}
            for i, p in enumerate(fn.get("params") or []):
                if arg_values and p["name"] in arg_values:
                    v = arg_values[p["name"]]
                    v = v.clone() if isinstance(v, Obj) else v
                    if p.get("ref") and isinstance(v, Obj):
                        v = RefBox(v)
                else:
                    v = self.symbolic_arg(p, ex)
                fr.vars[p["did"]] = v
                if isinstance(v, RefBox):
                    refs[p["name"]] = v.target
                elif isinstance(v, Ptr):
                    refs[p["name"]] = v.target
            try:
                if fn.get("ctor"):
                    for ini in fn.get("inits") or []:
                        ie = ini.get("init")
                        if ie is None:
                            continue
                        if ini.get("member"):
                            v = self.construct(ex, ie, fr, None) if ie.get("k") in ("CXXConstructExpr", "CXXTemporaryObjectExpr") else ex.rvalue(ie, fr)
                            this.fields[ini["member"]] = v
                        else:
                            if ie.get("k") in ("CXXConstructExpr", "CXXTemporaryObjectExpr"):
                                self.construct(ex, ie, fr, this)
                    this.symbolic = False
                ret = self.run_body(ex, fn, fr)
                ex.path.ret = ret
            except AbortPath:
                ex.path.aborted = True
            ex.path.post = {"this": this, "refs": refs}
            paths.append(ex.path)
            if len(paths) > max_paths:
                raise PathLimit("more than %d paths in %s" % (max_paths, fn["qn"]))
            # schedule the sibling of the deepest un-flipped True decision
            tk = ex.taken
            for j in range(len(tk) - 1, len(pre) - 1, -1):
                if tk[j]:
                    stack.append(tk[:j] + [False])
        return paths


def freeze(v):
    """hashable rendering of a value for uninterpreted calls"""
    if isinstance(v, Lin):
        return v
    if isinstance(v, Obj):
        if "__ext" in v.fields:
            return v.fields["__ext"]
        return ("obj", v.cls.split("<")[0], tuple((k, freeze(x)) for k, x in sorted(v.fields.items()) if not k.startswith("__")))
    if isinstance(v, Ptr):
        return ("ptr", freeze(v.target) if isinstance(v.target, Obj) else "loc", v.off)
    if isinstance(v, RefBox):
        return freeze(v.target)
    if isinstance(v, Loc):
        return ("loc", str(v.key))
    if isinstance(v, MemLoc):
        return ("mem", v.addr, v.size)
    if v is None:
        return None
    if isinstance(v, tuple):
        return tuple(freeze(x) if isinstance(x, (Obj, Ptr, Loc, RefBox, MemLoc)) else x for x in v)
    return v


# --------------------------------------------------------------- std summaries
def argvals(ex, args, fr):
    out = []
    for a in args:
        v = ex.eval(a, fr)
        if isinstance(v, (Loc, MemLoc)):
            v = ex.load(v)
        out.append(v)
    return out


def is_local_ptr(v):
    return isinstance(v, Ptr)


def array_of(p):
    t = p.target
    return t if isinstance(t, Obj) and (t.cls.startswith("array:") or t.cls == "carray") else None


def local_bytes(ex, p, n):
    """value stored in the local object a pointer designates"""
    t = p.target
    if isinstance(t, Obj):
        if "bytes" in t.fields:
            return t.fields["bytes"]
        if t.cls.startswith("array:") or t.cls == "carray":
            return ("elems", tuple((k, freeze(v)) for k, v in sorted(t.fields.items())))
        return freeze(t)
    if isinstance(t, Loc):
        return ex.load(t)
    raise Unsupported("bytes of %r" % (t,))


def set_local_bytes(ex, p, v):
    t = p.target
    if isinstance(t, Obj):
        t.fields = {"bytes": v}
        return
    if isinstance(t, Loc):
        ex.store(t, v)
        return
    raise Unsupported("store bytes to %r" % (t,))


def bi_memcpy(eng, ex, n, fr, c, args):
    dst, src, cnt = argvals(ex, args, fr)
    cnt = lin(cnt)
    if isinstance(dst, Ptr) and isinstance(src, Lin):
        ex.event("read", src, cnt)
        if not cnt.is_const():
            raise Unsupported("memcpy of symbolic length into a local")
        set_local_bytes(ex, dst, ex.wire(src, cnt.k, False))
    elif isinstance(dst, Lin) and isinstance(src, Ptr):
        ex.event("write", dst, cnt, local_bytes(ex, src, cnt))
    elif isinstance(dst, Ptr) and isinstance(src, Ptr):
        set_local_bytes(ex, dst, local_bytes(ex, src, cnt))
    else:
        ex.event("read", lin(src), cnt)
        ex.event("write", lin(dst), cnt, ("range", lin(src), cnt))
    return dst


def bswap_val(v, nbytes):
    if nbytes == 1:
        return v
    if isinstance(v, Lin):
        if v.is_const():
            k = v.k & ((1 << (8 * nbytes)) - 1)
            return Lin.const(int.from_bytes(k.to_bytes(nbytes, "little"), "big"))
        if len(v.terms) == 1 and v.k == 0 and v.terms[0][1] == 1:
            a = v.terms[0][0]
            if a[0] == "wire" and a[2] == nbytes:
                return Lin.atom(("wire", a[1], a[2], not a[3]))
            if a[0] == "bswap" and a[1] == nbytes:
                return a[2]
        return Lin.atom(("bswap", nbytes, v))
    raise Unsupported("bswap of %r" % (v,))


def bi_bswap(eng, ex, n, fr, c, args):
    (v,) = argvals(ex, args, fr)
    bits = int(re.sub(r"\D", "", c["name"]))
    return bswap_val(v, bits // 8)


def bi_std_byteswap(eng, ex, n, fr, c, args):
    (v,) = argvals(ex, args, fr)
    sz = type_size(n.get("t"), ex)
    return bswap_val(v, sz)


def ptr_len(ex, first, last):
    if isinstance(first, Lin) and isinstance(last, Lin):
        return last - first
    if isinstance(first, Ptr) and isinstance(last, Ptr) and first.target is last.target:
        return Lin.const(last.off - first.off)
    if isinstance(last, tuple) and last and last[0] == "symptr" and isinstance(first, Ptr):
        return last[2] - first.off
    raise Unsupported("range length of %r..%r" % (first, last))


def range_data(ex, first, ln, rev=False):
    if isinstance(first, Lin):
        ex.event("read", first, ln)
        if ln.is_const():
            return ex.wire(first, ln.k, rev and ln.k > 1)
        return ("range", first, ln, rev)
    if isinstance(first, Ptr):
        v = local_bytes(ex, first, ln)
        if rev:
            if isinstance(v, Lin) and ln.is_const():
                return bswap_val(v, ln.k)
            return ("rev", freeze(v))
        return v
    return ("range", freeze(first), ln, rev)


def write_range(ex, out, ln, data):
    if isinstance(out, Lin):
        ex.event("write", out, ln, data)
        return out + ln
    if isinstance(out, Ptr):
        set_local_bytes(ex, out, data)
        if ln.is_const():
            return Ptr(out.target, out.off + ln.k)
        return ("symptr", out.target, lin(out.off) + ln)
    raise Unsupported("write to %r" % (out,))


def ext_iter_len(first, last):
    return Lin.atom(("distance", freeze(first), freeze(last)))


def bi_copy(rev):
    def f(eng, ex, n, fr, c, args):
        first, last, out = argvals(ex, args, fr)
        try:
            ln = ptr_len(ex, first, last)
            data = range_data(ex, first, ln, rev)
        except Unsupported:
            ln = ext_iter_len(first, last)
            data = ("iter-range", freeze(first), freeze(last), rev)
        return write_range(ex, out, ln, data)
    return f


def bi_copy_n(eng, ex, n, fr, c, args):
    first, cnt, out = argvals(ex, args, fr)
    cnt = lin(cnt)
    data = range_data(ex, first, cnt) if isinstance(first, (Lin, Ptr)) else ("iter-n", freeze(first), cnt)
    return write_range(ex, out, cnt, data)


def bi_copy_backward(eng, ex, n, fr, c, args):
    first, last, dlast = argvals(ex, args, fr)
    ln = ptr_len(ex, first, last)
    data = range_data(ex, first, ln)
    if isinstance(dlast, Lin):
        ex.event("write", dlast - ln, ln, data)
        return dlast - ln
    raise Unsupported("copy_backward into local")


def bi_fill(eng, ex, n, fr, c, args):
    first, last, v = argvals(ex, args, fr)
    ln = ptr_len(ex, first, last)
    return write_range(ex, first, ln, ("fill", freeze(v)))


def bi_fill_n(eng, ex, n, fr, c, args):
    first, cnt, v = argvals(ex, args, fr)
    return write_range(ex, first, lin(cnt), ("fill", freeze(v)))


def bi_memchr(eng, ex, n, fr, c, args):
    p, ch, cnt = argvals(ex, args, fr)
    ex.event("read", lin(p), lin(cnt), "memchr")
    return Lin.atom(("memchr", lin(p), lin(ch), lin(cnt)))


def bi_strlen(eng, ex, n, fr, c, args):
    (p,) = argvals(ex, args, fr)
    return Lin.atom(("strlen", freeze(p)))


def bi_distance(eng, ex, n, fr, c, args):
    a, b = argvals(ex, args, fr)
    try:
        return ptr_len(ex, a, b)
    except Unsupported:
        return ext_iter_len(a, b)


def bi_begin_end(which):
    def f(eng, ex, n, fr, c, args):
        v = ex.eval(args[0], fr)
        if isinstance(v, Loc):
            v = ex.load(v)
        if isinstance(v, Obj):
            if v.cls == "ilist":
                arr = v.fields["arr"]
                return Ptr(arr, 0 if which == "begin" else v.fields["n"].k)
            sa = std_array_n(v.cls)
            if sa:
                return Ptr(v, 0 if which == "begin" else sa[1])
            if v.cls == "carray":
                return Ptr(v, 0 if which == "begin" else v.fields.get("__n", 0))
            # user range (symbolic): uninterpreted iterator
            return Lin.atom(("call", "std::" + which, freeze(v)))
        if isinstance(v, Ptr):
            return v
        return Lin.atom(("call", "std::" + which, freeze(v)))
    return f


def bi_bit_cast(eng, ex, n, fr, c, args):
    (v,) = argvals(ex, args, fr)
    to = rint.clean(n.get("t"))
    if isinstance(v, Obj):
        if "bytes" in v.fields:
            return v.fields["bytes"]
        raise Unsupported("bit_cast of object without byte image")
    if std_array_n(to):
        o = Obj("array:" + to)
        o.fields["bytes"] = v
        return o
    return v


def bi_identity(eng, ex, n, fr, c, args):
    v = ex.eval(args[0], fr)
    return v


def bi_addressof(eng, ex, n, fr, c, args):
    v = ex.eval(args[0], fr)
    if isinstance(v, MemLoc):
        return v.addr
    return Ptr(v)


def bi_const_false(eng, ex, n, fr, c, args):
    return Lin.const(0)


def bi_find_if(eng, ex, n, fr, c, args):
    vals = argvals(ex, args, fr)
    ex.event("extcall", "std::find_if", None, tuple(freeze(v) for v in vals[:2]))
    rt = rint.clean(n.get("t"))
    o = Obj(rt)
    o.fields["__ext"] = ("find_if", freeze(vals[0]), freeze(vals[1]))
    return o


BUILTINS = {
    "memcpy": bi_memcpy, "std::memcpy": bi_memcpy, "__builtin_memcpy": bi_memcpy,
    "std::byteswap": bi_std_byteswap,
    "std::copy": bi_copy(False), "std::reverse_copy": bi_copy(True),
    "std::copy_n": bi_copy_n, "std::copy_backward": bi_copy_backward,
    "std::fill": bi_fill, "std::fill_n": bi_fill_n,
    "memchr": bi_memchr, "std::memchr": bi_memchr,
    "strlen": bi_strlen, "std::strlen": bi_strlen,
    "std::distance": bi_distance,
    "std::begin": bi_begin_end("begin"), "std::end": bi_begin_end("end"),
    "std::cbegin": bi_begin_end("begin"), "std::cend": bi_begin_end("end"),
    "std::bit_cast": bi_bit_cast,
    "std::forward": bi_identity, "std::move": bi_identity,
    "std::addressof": bi_addressof,
    "std::is_constant_evaluated": bi_const_false,
    "std::find_if": bi_find_if,
}

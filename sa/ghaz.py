"""G-HAZ: totality hazards of sbeppc (C09) and the I/O error discipline (C20).

Every call in the sbeppc TU to an API that throws something other than
sbe_error or has a precondition (std::get on a variant, map/vector::at,
optional dereference/value(), front()/back(), operator[] / substr on strings,
dereference of get_if results and other nullable pointers, assert) needs
  * a guard on the same object that structurally dominates it in the same
    function (if(opt), if(!x.empty()), get_if null test, size comparison), or
  * a row in rules/haz_invariants.json naming the invariant that makes it safe
    (and, where the invariant is a validator check, the G-GUARD site that
    establishes it - the checker verifies that site still exists).
Plus: main's catch clauses vs. the exception types the hazards can raise,
validators run before compile(), recursion through file inclusion has a
visited-set test, loops bounded by schema integers have an upper-bound guard.
"""
import json
import re

from common import *
import gen
import gguard

TABLE = os.path.join(VERIF, "rules", "haz_invariants.json")


def classify(n):
    """(kind, object node, exception it can raise) for a hazardous node"""
    c = n.get("callee") or {}
    base, name, cls = c.get("base", ""), c.get("name", ""), c.get("cls", "") or ""
    args = n.get("args") or []
    if base == "std::get" and args and "variant" in (gen.strip(args[0]) or {}).get("t", "") + args[0].get("t", ""):
        return "std::get", args[0], "std::bad_variant_access"
    if name == "at" and ("map" in cls or "vector" in cls or "basic_string" in cls):
        return "at", n.get("obj"), "std::out_of_range"
    if name == "value" and cls.startswith("std::optional"):
        return "optional::value", n.get("obj"), "std::bad_optional_access"
    if name in ("operator*", "operator->") and cls.startswith("std::optional"):
        return "optional-deref", n.get("obj"), "UB"
    if name in ("operator*", "operator->") and ("__normal_iterator" in cls or "_iterator<" in cls or "_Node_iterator" in cls
                                                   or "_Rb_tree" in cls) and cls.startswith(("__gnu_cxx::", "std::")):
        return "iter-deref", n.get("obj"), "UB"
    if name in ("front", "back") and ("vector" in cls or "basic_string" in cls):
        return name, n.get("obj"), "UB"
    if name == "operator[]" and ("basic_string_view" in cls or cls.startswith("std::basic_string<") or cls.startswith("std::vector")):
        return "subscript", n.get("obj"), "UB"
    if name == "substr":
        return "substr", n.get("obj"), "std::out_of_range"
    if name in ("stoi", "stol", "stoul", "stoull", "stod", "stof", "stoll"):
        return "sto", args[0] if args else None, "std::invalid_argument"
    if name == "get" and "context_manager" in cls and args:
        # contexts are created while the validators run: a get() for an entity whose context does not exist yet
        # dereferences end() (release) / trips an assert
        return "ctx-get", args[0], "UB"
    if name == "__assert_fail":
        return "assert", None, "abort"
    if n.get("k") == "UnaryOperator" and n.get("op") == "*":
        sub = n.get("sub") or {}
        t = sub.get("t", "")
        if t.endswith("*") and "sbe::" in t and "message_schema" not in t:
            return "ptr-deref", sub, "UB"
    if n.get("k") == "MemberExpr" and n.get("arrow"):
        b = n.get("base") or {}
        t = b.get("t", "")
        if "sbe::" in t and t.endswith("*") and b.get("k") != "CXXThisExpr" and "message_schema" not in t:
            return "ptr-arrow", b, "UB"
    return None


def text_of(obj, fn):
    return gguard.opt_norm(gen.expr_text(obj, 0, fn)) if obj is not None else ""


def self_guarded(kind, ot, guard, idx=None):
    """does a dominating conjunct establish the precondition on the same object?"""
    for g in guard:
        if kind in ("optional-deref", "optional::value", "ptr-deref", "ptr-arrow", "std::get"):
            if g == ot:
                return g
            if kind in ("ptr-deref", "ptr-arrow") and g in ("*" + ot, ot.lstrip("*")):
                return g
            # comparison involving *ot implies engaged (it is evaluated after `ot &&`)
            if ("*" + ot + " ") in g and ot in guard:
                return g
        if kind == "iter-deref":
            # the result of a search is dereferenced only after it was compared with the end of the range
            if (g.endswith(" != " + ot) and g.startswith(("end(", "cend("))) or g.startswith(ot + " != end(") or g.startswith(ot + " != cend("):
                return g
        if kind in ("front", "back", "subscript", "substr"):
            if idx and kind == "subscript" and not re.fullmatch(r"\d+", idx):
                # a computed index needs its own bound: `idx < obj.size()` or `(idx + k) < obj.size()`
                if g == "%s < %s.size()" % (idx, ot) or re.fullmatch(r"\(%s \+ \d+\) < %s\.size\(\)" % (re.escape(idx), re.escape(ot)), g):
                    return g
                continue
            if g == "!%s.empty()" % ot or re.search(r"\d+ < %s\.size\(\)" % re.escape(ot), g) or \
               re.search(r"!= %s\.find\(" % re.escape(ot), g) or re.search(r"== %s\.find\(" % re.escape(ot), g):
                return g
    return None


def sites(f=None):
    f = f or gen.facts()
    out = []
    for fn in gen.sbeppc_functions(f):
        par = None
        for n in walk(fn["body"]):
            cl = classify(n)
            if not cl:
                continue
            kind, obj, exc = cl
            if kind == "iter-deref":
                # only results of searches can be past-the-end (range-for iterators and try_emplace results cannot)
                t0 = text_of(obj, fn)
                if not re.search(r"(^|\.)(lower_bound|upper_bound|find|find_if|find_if_not|min_element|max_element|search|adjacent_find|equal_range)\(", t0):
                    continue
            if kind == "ctx-get" and not fn["file"].endswith("sbe_schema_validator.hpp"):
                continue        # after validation every entity has its context (phase order: G-CALL.order)
            par = par or gen.parents(fn)
            g = gguard.guard_of(fn, n, par)
            ot = text_of(obj, fn)
            idx = None
            if kind == "subscript":
                a = n.get("args") or []
                idx = gguard.opt_norm(gen.expr_text(a[-1], 0, fn)) if a else None
            out.append({"fn": gguard.short_fn(fn), "kind": kind, "obj": ot, "line": n.get("l"), "guard": g, "exc": exc,
                        "file": fn["file"], "node": n, "func": fn, "idx": idx})
    return out


def assert_text(site):
    """condition text of an assert(...) site"""
    n = site["node"]
    # assert(e) expands to (e) ? void(0) : __assert_fail(#e, ...): the string literal argument is #e
    args = n.get("args") or []
    return gen.first_string(args[0]) if args else ""


def check(chk):
    if not os.path.exists(TABLE):
        raise AnalysisBroken("rules/haz_invariants.json missing")
    table = json.load(open(TABLE))
    rows = table["invariants"]
    guard_table = json.load(open(gguard.TABLE))["sites"]
    used = set()
    n = 0
    for s in sites():
        n += 1
        where = "%s:%s" % (rel(s["file"]), s["line"])
        if s["kind"] == "assert":
            key = "%s|assert|%s" % (s["fn"], assert_text(s))
        else:
            key = "%s|%s|%s" % (s["fn"], s["kind"], s["obj"])
            if s.get("idx") and not re.fullmatch(r"\d+", s["idx"]):
                key += "[%s]" % s["idx"]          # a computed index is part of what has to be justified
        sg = self_guarded(s["kind"], s["obj"], s["guard"], s.get("idx")) if s["kind"] != "assert" else None
        if sg:
            chk.ok("G-HAZ.guarded", key + "#%s" % s["line"], {"where": where, "hazard": s["kind"], "object": s["obj"], "guard": sg},
                   nontrivial=True)
            continue
        row = rows.get(key)
        if row is None:
            chk.violation("G-HAZ", key, where,
                          "%s on `%s` in %s can raise %s (not caught by main: crash) and has neither a dominating guard on the "
                          "same object (dominating: {%s}) nor a recorded invariant"
                          % (s["kind"], s["obj"], s["fn"], s["exc"], "; ".join(s["guard"])))
            continue
        used.add(key)
        link = row.get("established_by")
        if link and not any(k.startswith(link) for k in guard_table):
            chk.violation("G-HAZ.link", key, where,
                          "invariant of %s relies on validator check `%s`, which no longer exists in the guard table" % (key, link))
            continue
        ec = row.get("established_by_callers")
        if ec:
            bad = callers_establish(ec)
            if bad:
                chk.violation("G-HAZ.link", key, where,
                              "invariant of %s (%s) is established by the callers of %s, but %s" % (key, row["why"][:90], ec["callee"], bad))
                continue
        ev = row.get("established_by_value")
        if ev:
            bad = value_exclusion(chk, ev)
            if bad:
                chk.violation("G-HAZ.link", key, where,
                              "invariant of %s (%s) relies on %s never yielding `%s` for a %s: %s"
                              % (key, row["why"][:100], ev["fn"], ev["excludes"], ev["alternative"], bad))
                continue
        chk.ok("G-HAZ.invariant", key + "#%s" % s["line"], {"where": where, "hazard": s["kind"], "invariant": row["why"][:120]})
    stale = [k for k in rows if k not in used]
    if stale:
        chk.notes.append("G-HAZ: %d invariant rows no longer match a site (harmless): %s" % (len(stale), stale[:5]))
    chk.floor("G-HAZ sites", n, 150)
    return n


def callers_establish(ec):
    """an assert on a function's parameter that its callers' dispatch establishes: every resolved call site of the callee
    (same class) is dominated by guards matching each regular expression of `needs`.  Returns a description of the first
    call site that is not, or None.  No call site at all is analysis-broken."""
    f = gen.facts()
    n = 0
    for fn in gen.sbeppc_functions(f) + [x for x in f["functions"] if "/sbeppc/src/" in x.get("file", "") and x.get("body") is not None and x.get("lambda")
                                         and x not in gen.sbeppc_functions(f)]:
        par = None
        for x in walk(fn["body"]):
            c = x.get("callee") or {}
            if x.get("k") not in ("CallExpr", "CXXMemberCallExpr") or c.get("name") != ec["callee"]:
                continue
            if ec.get("class") and ec["class"] not in (c.get("cls") or c.get("base") or c.get("qn") or ""):
                continue
            n += 1
            par = par or gen.parents(fn)
            g = gguard.guard_of(fn, x, par)
            for need in ec["needs"]:
                if not any(re.fullmatch(need, t) for t in g):
                    return "the call at %s:%s is dominated by {%s}, which lacks `%s`" % (rel(fn["file"]), x.get("l"), "; ".join(g), need)
    if n == 0:
        raise AnalysisBroken("G-HAZ.link: no call site of %s found (re-confirm the invariant row)" % ec["callee"])
    return None


def value_exclusion(chk, ev):
    """an invariant of the form `helper F, for the variant alternative A, never returns the value X` (the arm of a
    std::visit that a consumer declares unreachable): decided on the exits of the callable that handles A inside F -
    the lambda taking `const A&`, else the generic one.  Each exit must be a literal other than X, or the declared
    value under a guard that excludes X.  Returns a description of the offending exit, or None."""
    import gguard
    found = gguard.extract_returns()
    fn_key, alt, x = ev["fn"], ev["alternative"], ev["excludes"]
    lambdas = {k: v for k, v in found.items() if k.startswith(fn_key + "::(lambda ")}
    if not lambdas:
        raise AnalysisBroken("G-HAZ.link: no visitor lambdas found in %s (re-confirm the invariant row)" % fn_key)
    exact = [k for k in lambdas if k == "%s::(lambda %s)" % (fn_key, alt)]
    generic = [k for k in lambdas if "type-parameter" in k or "auto" in k]
    pick = exact or generic
    if not pick:
        raise AnalysisBroken("G-HAZ.link: %s has no handler for %s (re-confirm the invariant row)" % (fn_key, alt))
    for k in pick:
        for rs, _fn in lambdas[k]:
            for e, g in rs:
                gs = " && ".join(g)
                if e == x:
                    return "the handler %s returns `%s`" % (k, x)
                if re.fullmatch(r"[A-Za-z_][A-Za-z_0-9]*", e):
                    continue            # another enumerator
                # a computed / declared value: the guard has to exclude X
                if ("%s != %s" % (e, x)) in gs or re.search(r"%s == (?!%s\b)[A-Za-z_]+" % (re.escape(e), re.escape(x)), gs):
                    continue
                return "the handler %s returns `%s`%s, which can be `%s`" % (k, e, (" under {%s}" % gs) if gs else "", x)
    return None


PRESENCE_RULES = [
    # (variant alternative, value the helper must never yield for it, why)
    ("sbe::set", "constant", "sets have no constant form: a consumer arm for constant sets is declared unreachable"),
    ("sbe::set", "optional", "sets have no null value: set fields are required whatever the <field> declares"),
    ("sbe::enumeration", "optional", "enums have no null value: an enum field declared optional is required (its value_type cannot hold nullopt)"),
]


def check_presence_rules(chk):
    """G-PRES: what `get_actual_presence` may yield per kind of encoding (the documented "actual presence" rules the
    traits, accessors and visitors are generated from), decided by value exclusion on the visitor's handlers"""
    for alt, x, why in PRESENCE_RULES:
        ev = {"fn": "sbe_schema_validator::get_actual_presence", "alternative": alt, "excludes": x}
        bad = value_exclusion(chk, ev)
        key = "presence:%s:never-%s" % (alt, x)
        if bad:
            chk.violation("G-PRES", key, "sbeppc/src/sbepp/sbeppc/sbe_schema_validator.hpp",
                          "get_actual_presence can yield `%s` for a field whose encoding is a %s (%s): %s" % (x, alt, why, bad))
        else:
            chk.ok("G-PRES", key, {"rule": why}, nontrivial=True)
    return len(PRESENCE_RULES)


def dump_unguarded():
    out = {}
    for s in sites():
        if s["kind"] == "assert":
            key = "%s|assert|%s" % (s["fn"], assert_text(s))
        else:
            key = "%s|%s|%s" % (s["fn"], s["kind"], s["obj"])
            if self_guarded(s["kind"], s["obj"], s["guard"]):
                continue
        out.setdefault(key, []).append((s["line"], s["guard"]))
    return out


# ------------------------------------------------------------ main / phases
def check_main(chk):
    """catch coverage and exit status mapping of main (C08, C09, C20)"""
    f = gen.facts()
    mains = [fn for fn in gen.sbeppc_functions(f) if fn["name"] == "main"]
    if not mains:
        raise AnalysisBroken("main not found")
    m = mains[0]
    where = "%s:%s" % (rel(m["file"]), m["line"])
    handlers = []
    tries = [n for n in walk(m["body"]) if n.get("k") == "CXXTryStmt"]
    for t in tries:
        for h in t.get("handlers") or []:
            handlers.append(h)
    caught = [h.get("caught") for h in handlers]
    # every handler must end in a non-zero return
    for h in handlers:
        rets = [n for n in walk(h["body"]) if n.get("k") == "ReturnStmt"]
        vals = [(r.get("sub") or {}).get("cv") for r in rets]
        key = "main-catch:%s" % h.get("caught")
        if not rets or any(v is None or int(v) == 0 for v in vals):
            chk.violation("G-HAZ.exit", key, "%s:%s" % (rel(m["file"]), h.get("l")),
                          "catch(%s) in main returns %s: a rejected schema / failed run must exit non-zero (CTest matches "
                          "output only, build systems trust the status)" % (h.get("caught"), vals))
        else:
            chk.ok("G-HAZ.exit", key, {"returns": vals})
    # return 0 only after compile(): the success return must come after the try block or at its end
    rets = []
    par = gen.parents(m)
    for n in walk(m["body"]):
        if n.get("k") == "ReturnStmt":
            v = (n.get("sub") or {}).get("cv")
            inside_try = False
            cur = n
            while id(cur) in par:
                cur, role = par[id(cur)]
                if cur.get("k") == "CXXTryStmt" and role == "try":
                    inside_try = True
            rets.append((v, n.get("l"), inside_try))
    calls_in_order = [(x.get("callee") or {}).get("name") for x in walk(m["body"]) if x.get("callee")]
    chk.extra["main_returns"] = rets
    phases = ["parse_schema", "validate", "validate", "generate", "compile"]
    seq = [(x.get("callee") or {}).get("qn", "") for x in walk(m["body"]) if x.get("callee")]
    want_order = ["schema_parser", "sbe_schema_validator::validate", "sbe_schema_cpp_validator::validate", "schema_compiler"]
    pos = []
    for w in want_order:
        idx = [i for i, q in enumerate(seq) if w in q]
        pos.append(idx[0] if idx else None)
    key = "main-phase-order"
    if None in pos or pos != sorted(pos):
        chk.violation("G-HAZ.phases", key, where,
                      "main must parse, run sbe_schema_validator, sbe_schema_cpp_validator, then schema_compiler (found positions %s): "
                      "generator code relies on validated invariants and nothing may be written for a rejected schema" % pos)
    else:
        chk.ok("G-HAZ.phases", key, {"positions": pos})
    return caught


def exception_escape(chk, caught):
    """D11: exception types the enumerated hazards / std calls can raise vs. main's handlers"""
    key = "main-catch-coverage"
    broad = any(c in ("...",) or "std::exception" in c for c in caught)
    if broad:
        chk.ok("G-HAZ.catch", key, {"caught": caught})
        return
    chk.violation("G-HAZ.catch", key, "sbeppc/src/sbepp/sbeppc/main.cpp",
                  "main catches only %s: std::bad_variant_access, std::out_of_range (map::at, substr), std::length_error, "
                  "fmt::format_error, std::bad_alloc and std::filesystem errors escape and terminate the process without a "
                  "diagnostic" % caught)


def check_include_recursion(chk):
    """cycles in the call graph that read files need a visited-set test (D12)"""
    f = gen.facts()
    fns = {fn["key"]: fn for fn in gen.sbeppc_functions(f)}
    byq = {}
    for fn in fns.values():
        byq.setdefault(gguard.short_fn(fn), fn)
    pi = byq.get("schema_parser::parse_include")
    if pi is None:
        chk.broke("parse_include not found")
        return
    # does parse_include (transitively through the nested parser) reach itself?  It constructs a schema_parser and calls
    # parse_schema_content, which dispatches on <include> back to parse_include.
    reaches = False
    seen = set()
    work = [pi]
    while work:
        cur = work.pop()
        if cur["key"] in seen:
            continue
        seen.add(cur["key"])
        for n in walk(cur["body"]):
            c = n.get("callee")
            if c and c.get("key") in fns:
                t = fns[c["key"]]
                if t is pi and cur is not pi or (t is pi and cur is pi):
                    reaches = True
                work.append(t)
    key = "include-recursion"
    where = "%s:%s" % (rel(pi["file"]), pi["line"])
    if not reaches:
        chk.ok("G-HAZ.recursion", key, {"note": "parse_include is not recursive"})
        return
    # a visited-set test: the construction of the nested parser is dominated by a membership test on a member
    # container whose failing arm leaves the function, and what the nested parser knows includes what this one knows
    # (the member is handed over: constructor argument, assignment or insert on the nested object)
    par = gen.parents(pi)
    nested = [n for n in walk(pi["body"]) if n.get("k") == "VarDecl" and "schema_parser" in (n.get("t") or "")]
    guards, handed = [], False
    for n in nested:
        for g in gguard.guard_of(pi, n, par):
            if re.search(r"\b(find|count|contains)\(", g) or "add_or_throw" in g:
                guards.append(g)
        nm = n.get("name")
        for x in walk(pi["body"]):
            c = x.get("callee") or {}
            if c.get("name") in ("insert", "push_back", "emplace_back", "operator=", "assign", "merge") and nm and nm in gen.expr_text(x, 0, pi):
                # the *whole* chain has to be handed over (begin..end of the member, or the member itself): a parent-only
                # link lets cycles of three files through
                txt = gguard.opt_norm(gen.expr_text(x, 0, pi))
                members = set(y.get("name") for y in walk(pi["body"]) if y.get("k") == "MemberExpr" and (y.get("base") or {}).get("k") == "CXXThisExpr")
                for mname in members:
                    whole = ("begin(%s)" % mname in txt and "end(%s)" % mname in txt) or re.search(r"[(,=]\s*%s\s*[),]" % re.escape(mname), txt)
                    if whole and not re.search(r"%s\.(back|front)\(\)|%s\[" % (re.escape(mname), re.escape(mname)), txt):
                        handed = True
        if len((n.get("init") or {}).get("args") or []) > 3:
            handed = True
    if guards and handed:
        chk.ok("G-HAZ.recursion", key, {"visited_test": guards[:2], "state_handed_to_nested_parser": True})
    elif guards:
        chk.violation("G-HAZ.recursion", key, where,
                      "parse_include tests %s before recursing but does not hand its include chain to the nested parser: "
                      "only direct self-inclusion is caught" % guards[:1])
    else:
        chk.violation("G-HAZ.recursion", key, where,
                      "parse_include recurses into a nested schema_parser for every <include href> without an include "
                      "stack / visited set: a file that includes itself recurses until the stack overflows (SIGSEGV)")


def check_header_lookup_siblings(chk):
    """C17/C09: the three header-element lookups must handle the same element
    kinds (a ref-typed member resolved to its type)."""
    f = gen.facts()
    want = {"sbe_schema_validator::get_level_header_element": "validator",
            "messages_compiler::get_header_element": "accessors/fillers",
            "traits_generator::get_num_in_group_underlying_type": "size_bytes traits"}
    for q, role in want.items():
        fns = [fn for fn in gen.sbeppc_functions(f) if gguard.short_fn(fn) == q]
        key = "header-lookup:" + q
        if not fns:
            chk.broke("header lookup %s not found" % q)
            continue
        fn = fns[0]
        kinds = set()
        for n in walk(fn["body"]):
            c = n.get("callee") or {}
            if c.get("name") in ("get_if", "get", "holds_alternative"):
                for t in c.get("targs") or []:
                    if "sbe::type" in t:
                        kinds.add("type")
                    if "sbe::ref" in t:
                        kinds.add("ref")
        where = "%s:%s" % (rel(fn["file"]), fn["line"])
        if kinds >= {"type", "ref"}:
            chk.ok("G-HAZ.siblings", key, {"handles": sorted(kinds), "role": role})
        else:
            chk.violation("G-HAZ.siblings", key, where,
                          "%s (%s) handles header members of kind %s only; the validator accepts <ref> members, so a "
                          "ref-typed header member reaches std::get<sbe::type> (bad_variant_access)" % (q, role, sorted(kinds)))

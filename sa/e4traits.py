"""E4 part 2: traits, tags, children lists (C18) and the trait-level
size_bytes(...) polynomial (C05) of generated headers against the XML model."""
import re

from common import *
import rint
import sbe_model as M
from symex import *
from libsum import *

PRESENCE = {"required": 0, "optional": 1, "constant": 2}


def split_targs(t):
    """top-level template arguments of `name<...>`"""
    i = t.find("<")
    if i < 0:
        return []
    s = t[i + 1:t.rfind(">")]
    out, depth, cur = [], 0, ""
    for ch in s:
        if ch == "<":
            depth += 1
        elif ch == ">":
            depth -= 1
        if ch == "," and depth == 0:
            out.append(cur.strip())
            cur = ""
        else:
            cur += ch
    if cur.strip():
        out.append(cur.strip())
    return out


class Traits:
    def __init__(self, ctx, kind, tagkey):
        self.ctx = ctx
        self.tag = ctx.names.get(tagkey)
        self.cls = "sbepp::%s<%s>" % (kind, self.tag) if self.tag else None
        self.rec = ctx.lib.eng.record(self.cls) if self.cls else None
        self.fns = {}
        if self.cls:
            for f in ctx.lib.eng.fns.values():
                if f.get("cls") == self.cls:
                    self.fns.setdefault(f["name"], f)

    def value(self, name):
        f = self.fns.get(name)
        if f is None:
            return None, None
        ps = self.ctx.lib.eng.summarise(f)
        live = [p for p in ps if not p.aborted]
        if len(live) != 1:
            raise AnalysisBroken("trait %s::%s has %d paths" % (self.cls, name, len(live)))
        return live[0].ret, f

    def alias(self, name):
        if not self.rec:
            return None
        for a in self.rec["aliases"]:
            if a["name"] == name:
                return a
        return None


def as_str(v):
    if isinstance(v, Lin) and len(v.terms) == 1 and v.terms[0][0][0] == "strlit":
        return v.terms[0][0][1]
    return None


def check_entity(ctx, rule, kind, tagpath, expect, lists=None, aliases=None, must_absent=()):
    chk = ctx.chk
    key = "%s<%s>" % (kind, "::".join(tagpath))
    tr = Traits(ctx, kind, "tag__" + "__".join(tagpath))
    if tr.rec is None:
        chk.violation(rule, "traits-missing:" + key, ctx.xml(), "no %s specialisation for tag %s" % (kind, "::".join(tagpath)))
        return
    wh = "%s:%s" % (rel(tr.rec["file"]), tr.rec["line"])
    errs = []
    for name, want in expect.items():
        try:
            got, f = tr.value(name)
        except AnalysisBroken as e:
            chk.broke("E4 traits %s.%s: %s" % (key, name, e))
            continue
        if f is None:
            errs.append("%s() is missing" % name)
            continue
        if isinstance(want, str):
            g = as_str(got)
            if g != want:
                errs.append("%s() returns %r, schema says %r" % (name, g if g is not None else show(got), want))
        elif isinstance(want, int):
            if not (isinstance(got, Lin) and got.is_const() and got.k == want):
                errs.append("%s() returns %s, schema says %d" % (name, show(got), want))
        elif want is None:
            pass
    for name in must_absent:
        if name in tr.fns:
            errs.append("%s() exists although the schema does not define it" % name)
    for name, want in (lists or {}).items():
        a = tr.alias(name)
        if a is None:
            errs.append("%s is missing" % name)
            continue
        got = split_targs(a["t"])
        if got != want:
            errs.append("%s = %s, schema order is %s" % (name, [g.split("::")[-1] for g in got], [w.split("::")[-1] if w else w for w in want]))
    for name, want in (aliases or {}).items():
        a = tr.alias(name)
        if a is None:
            errs.append("alias %s is missing" % name)
        elif want is not None and rint.clean(a["t"]) != want:
            errs.append("%s = %s, expected %s" % (name, a["t"][-70:], want[-70:]))
    if errs:
        chk.violation(rule, "traits:" + key, wh, "schema %s, %s: %s" % (ctx.xml(), key, "; ".join(errs)))
    else:
        chk.ok(rule, "traits:" + key, {"entity": key, "checked": sorted(expect) + sorted(lists or {}) + sorted(aliases or {})})


def common(ent, with_sem=False):
    e = {"name": ent.name, "description": ent.description, "since_version": ent.since}
    if ent.deprecated is not None:
        e["deprecated"] = ent.deprecated
    if with_sem:
        e["semantic_type"] = ent.semantic_type
    return e


def absent(ent):
    return () if ent.deprecated is not None else ("deprecated",)


def endian_value(ctx, which):
    for e in ctx.lib.facts.get("enums", []):
        if e["qn"] in ("sbepp::endian", "std::endian"):
            for en in e["enumerators"]:
                if en["name"] == which:
                    return int(en["value"])
    raise AnalysisBroken("sbepp::endian enumerators not found")


def check_traits(ctx, rule):
    m, names = ctx.m, ctx.names
    tag = lambda *p: names.get("tag__" + "__".join(p))
    # ---- schema
    e = {"package": m.package, "id": m.id, "version": m.version, "semantic_version": m.semantic_version,
         "description": m.description, "byte_order": endian_value(ctx, m.endian())}
    check_entity(ctx, rule, "schema_traits", ["schema"], e,
                 lists={"message_tags": [tag("messages", x.name) for x in m.messages]},
                 aliases={"header_type_tag": tag("types", m.header.name)})
    # type_tags: unordered_map iteration order in the generator -> compare as sets
    tr = Traits(ctx, "schema_traits", "tag__schema")
    a = tr.alias("type_tags")
    if a is not None:
        got = sorted(split_targs(a["t"]))
        want = sorted(tag("types", x.name) for x in m.type_order)
        if got != want:
            ctx.chk.violation(rule, "traits:schema.type_tags", ctx.xml(), "schema %s: type_tags %s != public types %s"
                              % (ctx.xml(), [g.split("::")[-1] for g in got], [w.split("::")[-1] for w in want]))
        else:
            ctx.chk.ok(rule, "traits:schema.type_tags", {"types": len(got)})

    # ---- types
    def enc_traits(enc, path, offset):
        if isinstance(enc, M.Ref):
            tgt = enc.target
            e = {"name": enc.name, "since_version": enc.since}
            if enc.deprecated is not None:
                e["deprecated"] = enc.deprecated
            if offset is not None:
                e["offset"] = offset
            # a ref gets the traits kind of its target
            kind = {M.Type: "type_traits", M.Enum: "enum_traits", M.Set: "set_traits", M.Composite: "composite_traits"}[type(tgt)]
            check_entity(ctx, rule, kind, path, e, must_absent=absent(enc))
            return
        if isinstance(enc, M.Type):
            e = common(enc, True)
            e["presence"] = PRESENCE[enc.presence]
            e["length"] = enc.length
            if offset is not None:
                e["offset"] = offset
            if enc.character_encoding is not None:
                e["character_encoding"] = enc.character_encoding
            check_entity(ctx, rule, "type_traits", path, e, must_absent=absent(enc))
        elif isinstance(enc, M.Enum):
            e = common(enc)
            if offset is not None:
                e["offset"] = offset
            check_entity(ctx, rule, "enum_traits", path, e, lists={"value_tags": [tag(*(path + [v.name])) for v in enc.values]},
                         aliases={"encoding_type": M.PRIM_CPP[enc.primitive]}, must_absent=absent(enc))
            for v in enc.values:
                ev = common(v)
                ev["value"] = ord(v.value[0]) if enc.primitive == "char" else int(v.value)
                check_entity(ctx, rule, "enum_value_traits", path + [v.name], ev, must_absent=absent(v))
        elif isinstance(enc, M.Set):
            e = common(enc)
            if offset is not None:
                e["offset"] = offset
            check_entity(ctx, rule, "set_traits", path, e, lists={"choice_tags": [tag(*(path + [c.name])) for c in enc.choices]},
                         aliases={"encoding_type": M.PRIM_CPP[enc.primitive]}, must_absent=absent(enc))
            for c in enc.choices:
                ec = common(c)
                ec["index"] = c.index
                check_entity(ctx, rule, "set_choice_traits", path + [c.name], ec, must_absent=absent(c))
        elif isinstance(enc, M.Composite):
            e = common(enc, True)
            e["size_bytes"] = enc.size
            if offset is not None:
                e["offset"] = offset
            check_entity(ctx, rule, "composite_traits", path, e,
                         lists={"element_tags": [tag(*(path + [el.name])) for el in enc.elements]}, must_absent=absent(enc))
            for el in enc.elements:
                enc_traits(el, path + [el.name], el.offset if not el.is_constant else None)
    for enc in m.type_order:
        enc_traits(enc, ["types", enc.name], None)

    # ---- messages
    def level(lvl, path):
        lists = {"field_tags": [tag(*(path + [f.name])) for f in lvl.fields],
                 "group_tags": [tag(*(path + [g.name])) for g in lvl.groups],
                 "data_tags": [tag(*(path + [d.name])) for d in lvl.data]}
        e = common(lvl, True)
        e["id"] = lvl.id
        e["block_length"] = lvl.block_length
        if isinstance(lvl, M.Message):
            check_entity(ctx, rule, "message_traits", path, e, lists=lists, aliases={"schema_tag": tag("schema")},
                         must_absent=absent(lvl))
        else:
            check_entity(ctx, rule, "group_traits", path, e, lists=lists,
                         aliases={"dimension_type_tag": tag("types", lvl.header.name)}, must_absent=absent(lvl))
        for f in lvl.fields:
            ef = common(f)
            ef["id"] = f.id
            ef["presence"] = PRESENCE[f.presence]
            if f.presence != "constant":
                ef["offset"] = f.offset
            check_entity(ctx, rule, "field_traits", path + [f.name], ef, must_absent=absent(f))
        for d in lvl.data:
            ed = common(d)
            ed["id"] = d.id
            check_entity(ctx, rule, "data_traits", path + [d.name], ed, must_absent=absent(d))
        for g in lvl.groups:
            level(g, path + [g.name])
    for msg in m.messages:
        level(msg, ["messages", msg.name])


# ------------------------------------------------------- size_bytes(...) trait
def expected_params(ctx, lvl, is_group):
    """documented parameter list: (name, cpp type) and model bookkeeping"""
    params = []
    used = {}

    def uniq(n):
        if n not in used:
            used[n] = 0
            return n
        used[n] += 1
        return None

    def rec(l, prefix):
        for g in l.groups:
            base = (prefix + "_" if prefix else "") + g.name + "_num_in_group"
            nt = ctx.m.header_element_type(g.header, "numInGroup")
            params.append([g, base, M.PRIM_CPP[nt.primitive]])
            rec(g, (prefix + "_" if prefix else "") + g.name)
    rec(lvl, "")
    return params


def has_data(lvl):
    if lvl.data:
        return True
    return any(has_data(g) for g in lvl.groups)


def check_size_bytes_trait(ctx, rule):
    chk, lib = ctx.chk, ctx.lib

    def one(lvl, path, is_group):
        key = "::".join(path)
        tr = Traits(ctx, "group_traits" if is_group else "message_traits", "tag__" + "__".join(path))
        f = tr.fns.get("size_bytes")
        if f is None:
            chk.violation(rule, "size_bytes-missing:" + key, ctx.xml(), "no size_bytes trait for %s" % key)
            return
        wh = where(f)
        ps = f.get("params") or []
        exp = expected_params(ctx, lvl, is_group)
        want_types = ([M.PRIM_CPP[ctx.m.header_element_type(lvl.header, "numInGroup").primitive]] if is_group else []) + [e[2] for e in exp]
        want_data = has_data(lvl)
        if want_data:
            want_types.append("unsigned long")
        got_types = [rint.clean(p["t"]) for p in ps]
        errs = []
        if got_types != want_types:
            errs.append("parameter types %s, documented list is %s" % (got_types, want_types))
        names = [p["name"] for p in ps]
        if is_group and names and names[0] != "num_in_group":
            errs.append("first parameter is %s, documented name is num_in_group" % names[0])
        if want_data and names and names[-1] != "total_data_size":
            errs.append("last parameter is %s, documented name is total_data_size" % names[-1])
        gnames = names[(1 if is_group else 0):(len(names) - 1 if want_data else len(names))]
        for (g, base, _), nm in zip(exp, gnames):
            if not (nm == base or re.match(re.escape(base) + r"_\d+$", nm)):
                errs.append("parameter %s does not follow <group_path>_num_in_group[_n] for group %s (%s)" % (nm, g.name, base))
        if len(set(names)) != len(names):
            errs.append("duplicate parameter names %s" % names)
        if errs:
            chk.violation(rule, "size_bytes-params:" + key, wh, "schema %s, size_bytes trait of %s: %s" % (ctx.xml(), key, "; ".join(errs)))
            return
        # polynomial
        try:
            paths = lib.eng.summarise(f)
        except AnalysisBroken as e:
            chk.broke("E4 size_bytes %s: %s" % (key, e))
            return
        live = [p for p in paths if not p.aborted]
        got = lin(live[0].ret)
        N = {}
        for (g, base, _), nm in zip(exp, gnames):
            N[id(g)] = sym(nm)
        if is_group:
            own = sym("num_in_group")
            want = Lin.const(lvl.header.size) + own * Lin.const(lvl.block_length)
        else:
            own = Lin.const(1)
            want = Lin.const(ctx.header_size + lvl.block_length)

        def rec(l, count):
            nonlocal want
            for d in l.data:
                lt = ctx.m.header_element_type(d.header, "length")
                want = want + count * Lin.const(M.PRIM_SIZE[lt.primitive])
            for g in l.groups:
                n = N[id(g)]
                want = want + count * Lin.const(g.header.size) + n * Lin.const(g.block_length)
                rec(g, n)
        rec(lvl, own)
        if want_data:
            want = want + sym("total_data_size")
        if strip_casts_lin(got) != want:
            chk.violation(rule, "size_bytes-poly:" + key, wh,
                          "schema %s, size_bytes trait of %s evaluates to %s, the layout gives %s" % (ctx.xml(), key, show(strip_casts_lin(got)), show(want)))
        else:
            chk.ok(rule, "size_bytes:" + key, {"entity": key, "params": names, "polynomial": show(want)})
        for d in lvl.data:
            dkey = "::".join(path + [d.name])
            tr = Traits(ctx, "data_traits", "tag__" + "__".join(path + [d.name]))
            f = tr.fns.get("size_bytes")
            if f is None:
                chk.violation(rule, "size_bytes-missing:" + dkey, ctx.xml(), "no size_bytes trait for data %s" % dkey)
                continue
            lt = ctx.m.header_element_type(d.header, "length")
            ps = f.get("params") or []
            try:
                live = [p for p in lib.eng.summarise(f) if not p.aborted]
                got = strip_casts_lin(lin(live[0].ret))
            except (AnalysisBroken, IndexError) as e:
                chk.broke("E4 data size_bytes %s: %s" % (dkey, e))
                continue
            want = Lin.const(M.PRIM_SIZE[lt.primitive]) + (sym(ps[0]["name"]) if ps else Lin.const(0))
            if len(ps) != 1 or rint.clean(ps[0]["t"]) != M.PRIM_CPP[lt.primitive] or got != want:
                chk.violation(rule, "size_bytes-poly:" + dkey, where(f),
                              "schema %s, data_traits::size_bytes of %s is (%s) -> %s, expected (%s size) -> %s"
                              % (ctx.xml(), dkey, [rint.clean(p["t"]) for p in ps], show(got), M.PRIM_CPP[lt.primitive], show(want)))
            else:
                chk.ok(rule, "size_bytes:" + dkey, {"entity": dkey, "polynomial": show(want)})
        for g in lvl.groups:
            one(g, path + [g.name], True)
    for msg in ctx.m.messages:
        one(msg, ["messages", msg.name], False)


def strip_casts_lin(l):
    from spec_group import strip_cast
    return strip_cast(l)

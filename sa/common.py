"""Shared plumbing for the sbepp static checks: paths, content-addressed cache,
building the fact extractor and sbeppc from /repo's *current* sources, running
the extractor, evidence/violation bookkeeping.

Nothing in here decides a property.
"""
import fcntl
import glob
import hashlib
import json
import os
import shutil
import subprocess
import sys
import time

VERIF = os.path.dirname(os.path.dirname(os.path.abspath(__file__)))
REPO = os.environ.get("SBEPP_REPO", "/repo")
CACHE = os.path.join(VERIF, ".cache")
SBEPP_HPP = os.path.join(REPO, "sbepp/src/sbepp/sbepp.hpp")
SBEPPC_SRC = os.path.join(REPO, "sbeppc/src/sbepp/sbeppc")
FMT_INC = "/root/miniconda/include"
FMT_LIB = "/root/miniconda/lib/libfmt.so.12.1.0"
FMT_RPATH = "/root/miniconda/lib"
PUGI_LIB = "/usr/lib/x86_64-linux-gnu/libpugixml.so.1.13"
NPROC = min(16, os.cpu_count() or 4)

EXIT_OK, EXIT_VIOLATION, EXIT_BROKEN = 0, 1, 2


class AnalysisBroken(Exception):
    """The machinery could not reach a verdict (anchor vanished, extractor
    failed, a floor was not met).  Never used to hide a verdict."""


class GeneratorRejects(Exception):
    """sbeppc, built from the tree under analysis, does not accept one of the schemas of the build set / corpus.  All
    of them are valid (the repository's own build schemas and the corpus, accepted by the unchanged tree): rejecting
    one is a verdict - a valid schema is refused, or the generator crashed - not an engine failure."""
    def __init__(self, schema, rc, out):
        Exception.__init__(self, "%s: status %s: %s" % (schema, rc, out))
        self.schema, self.rc, self.out = schema, rc, out


def log(*a):
    print(*a, file=sys.stderr, flush=True)


# ------------------------------------------------------------------ hashing
def sha(*parts):
    h = hashlib.sha256()
    for p in parts:
        if isinstance(p, str):
            p = p.encode()
        h.update(p)
        h.update(b"\0")
    return h.hexdigest()[:20]


def hash_files(paths):
    h = hashlib.sha256()
    for p in sorted(paths):
        h.update(p.encode())
        h.update(b"\0")
        try:
            with open(p, "rb") as f:
                h.update(f.read())
        except OSError:
            h.update(b"<missing>")
        h.update(b"\0")
    return h.hexdigest()[:20]


def files_under(d, exts=None):
    out = []
    for root, _, files in os.walk(d):
        for f in files:
            if exts is None or os.path.splitext(f)[1] in exts:
                out.append(os.path.join(root, f))
    return sorted(out)


def repo_sources():
    return files_under(SBEPPC_SRC) + [SBEPP_HPP]


def repo_hash():
    return hash_files(repo_sources())


class Lock:
    def __init__(self, name):
        os.makedirs(os.path.join(CACHE, "locks"), exist_ok=True)
        self.path = os.path.join(CACHE, "locks", name + ".lock")

    def __enter__(self):
        self.f = open(self.path, "w")
        fcntl.flock(self.f, fcntl.LOCK_EX)
        return self

    def __exit__(self, *a):
        fcntl.flock(self.f, fcntl.LOCK_UN)
        self.f.close()


def run(cmd, **kw):
    kw.setdefault("stdout", subprocess.PIPE)
    kw.setdefault("stderr", subprocess.PIPE)
    kw.setdefault("text", True)
    return subprocess.run(cmd, **kw)


# ------------------------------------------------------------- tool builds
_resource_dir = None


def resource_dir():
    global _resource_dir
    if _resource_dir is None:
        _resource_dir = run(["clang++", "-print-resource-dir"]).stdout.strip()
    return _resource_dir


def ensure_tool():
    """Build tool/sbepp-facts.cc (libTooling) once per source content."""
    src = os.path.join(VERIF, "tool", "sbepp-facts.cc")
    h = hash_files([src])
    out = os.path.join(CACHE, "bin", "sbepp-facts-" + h)
    if os.path.exists(out):
        return out
    with Lock("tool"):
        if os.path.exists(out):
            return out
        os.makedirs(os.path.dirname(out), exist_ok=True)
        cxxflags = run(["llvm-config-14", "--cxxflags"]).stdout.split()
        tmp = out + ".tmp%d" % os.getpid()
        cmd = (["clang++"] + cxxflags + ["-fno-rtti", "-O1", src, "-o", tmp,
               "/usr/lib/llvm-14/lib/libclang-cpp.so.14",
               "/usr/lib/llvm-14/lib/libLLVM-14.so"])
        log("[build] sbepp-facts ...")
        r = run(cmd)
        if r.returncode != 0:
            raise AnalysisBroken("cannot build sbepp-facts:\n" + r.stderr[-3000:])
        os.rename(tmp, out)
    return out


def sbepp_version():
    try:
        for line in open(os.path.join(REPO, "CMakeLists.txt")):
            s = line.strip()
            if s.startswith("VERSION"):
                return s.split()[1]
    except OSError:
        pass
    return "0.0.0"


def ensure_sbeppc():
    """Build sbeppc from /repo's current working tree (g++ -O0), memoised by
    the content hash of its sources."""
    h = repo_hash()
    d = os.path.join(CACHE, "sbeppc-" + h)
    exe = os.path.join(d, "sbeppc")
    if os.path.exists(exe):
        return exe
    with Lock("sbeppc"):
        if os.path.exists(exe):
            return exe
        tmpd = d + ".tmp%d" % os.getpid()
        shutil.rmtree(tmpd, ignore_errors=True)
        os.makedirs(tmpd)
        bi = open(os.path.join(SBEPPC_SRC, "build_info.cpp.in")).read()
        bi = bi.replace("@sbepp_VERSION@", sbepp_version())
        open(os.path.join(tmpd, "build_info.cpp"), "w").write(bi)
        cmd = ["g++", "-std=c++17", "-O0", "-DFMT_SHARED", "-DNDEBUG",
               "-I" + os.path.join(REPO, "sbeppc/src"),
               "-I" + os.path.join(REPO, "sbepp/src"),
               "-isystem", FMT_INC,
               os.path.join(SBEPPC_SRC, "main.cpp"),
               os.path.join(tmpd, "build_info.cpp"),
               "-o", os.path.join(tmpd, "sbeppc"),
               "-Wl,-rpath," + FMT_RPATH, FMT_LIB, PUGI_LIB]
        log("[build] sbeppc from %s ..." % REPO)
        t = time.time()
        r = run(cmd)
        if r.returncode != 0:
            shutil.rmtree(tmpd, ignore_errors=True)
            raise AnalysisBroken("sbeppc does not build:\n" + r.stderr[-3000:])
        log("[build] sbeppc done in %.1fs" % (time.time() - t))
        shutil.rmtree(d, ignore_errors=True)
        os.rename(tmpd, d)
        prune_cache("sbeppc-", keep=3)
    return exe


def prune_cache(prefix, keep):
    ents = [os.path.join(CACHE, e) for e in os.listdir(CACHE)
            if e.startswith(prefix) and ".tmp" not in e]
    ents.sort(key=lambda p: os.path.getmtime(p), reverse=True)
    now = time.time()
    for p in ents[keep:]:
        # a directory used within the last two hours may belong to a check that is still running
        # (several checks, or a check against another tree, run side by side)
        if now - os.path.getmtime(p) < 7200:
            continue
        shutil.rmtree(p, ignore_errors=True)


SBEPPC_TU_FLAGS = ["-std=c++17", "-DFMT_SHARED", "-UNDEBUG",
                   "-I" + os.path.join(REPO, "sbeppc/src"),
                   "-I" + os.path.join(REPO, "sbepp/src"),
                   "-isystem", FMT_INC]


def extract(tu, flags, roots, out, only=None, no_patterns=False):
    tool = ensure_tool()
    cmd = [tool, tu, "-o", out]
    for r in roots:
        cmd += ["-root", r]
    for o in (only or []):
        cmd += ["-only", o]
    if no_patterns:
        cmd += ["-no-patterns"]
    cmd += ["--"] + flags + ["-resource-dir", resource_dir(), "-w"]
    r = run(cmd)
    if r.returncode != 0 or not os.path.exists(out):
        try:
            os.remove(out)
        except OSError:
            pass
        first = [l for l in (r.stderr or "").splitlines() if " error: " in l][:4]
        raise AnalysisBroken("extractor failed on %s:\n%s\n...\n%s" % (tu, "\n".join(first), (r.stderr or "")[-3000:]))
    return out


_facts_mem = {}


def sbeppc_facts():
    """Facts of the sbeppc translation unit (main.cpp with every header)."""
    h = sha(repo_hash(), hash_files([os.path.join(VERIF, "tool", "sbepp-facts.cc")]), "sbeppc-tu-v1")
    if h in _facts_mem:
        return _facts_mem[h]
    d = os.path.join(CACHE, "facts")
    os.makedirs(d, exist_ok=True)
    out = os.path.join(d, "sbeppc-%s.json" % h)
    if not os.path.exists(out):
        with Lock("facts-sbeppc"):
            if not os.path.exists(out):
                tmp = out + ".tmp%d" % os.getpid()
                extract(os.path.join(SBEPPC_SRC, "main.cpp"), SBEPPC_TU_FLAGS,
                        [os.path.join(REPO, "sbeppc")], tmp)
                os.rename(tmp, out)
                prune_files(d, "sbeppc-", keep=3)
    data = json.load(open(out))
    if data.get("errors"):
        raise AnalysisBroken("sbeppc TU has %s compile errors under clang" % data["errors"])
    _facts_mem[h] = data
    return data


def prune_files(d, prefix, keep):
    ents = [os.path.join(d, e) for e in os.listdir(d)
            if e.startswith(prefix) and ".tmp" not in e]
    ents.sort(key=lambda p: os.path.getmtime(p), reverse=True)
    for p in ents[keep:]:
        try:
            os.remove(p)
        except OSError:
            pass


# ----------------------------------------------------------- AST utilities
CHILD_KEYS = ("sub", "lhs", "rhs", "cond", "then", "else", "base", "idx", "obj",
              "fnexpr", "init", "inc", "body", "rangestmt", "beginstmt",
              "endstmt", "loopvar", "try", "condvar")
LIST_KEYS = ("c", "args", "inits", "decls", "capinits", "handlers")


def children(n):
    for k in CHILD_KEYS:
        v = n.get(k)
        if isinstance(v, dict):
            yield v
    for k in LIST_KEYS:
        v = n.get(k)
        if isinstance(v, list):
            for x in v:
                if isinstance(x, dict):
                    yield x


def walk(n):
    stack = [n]
    while stack:
        x = stack.pop()
        yield x
        stack.extend(reversed(list(children(x))))


def strip_casts(n, only_implicit=False):
    """Skip cast nodes that do not change the value representation."""
    while n is not None and n.get("k", "").endswith("CastExpr") or (
            n is not None and n.get("k") == "CXXFunctionalCastExpr"):
        if only_implicit and not n.get("implicit"):
            break
        n = n.get("sub")
    return n


def callee_base(n):
    c = n.get("callee") or {}
    return c.get("base", "")


def rel(path):
    return os.path.relpath(path, REPO) if path.startswith(REPO) else path


# ------------------------------------------------------ evidence & verdicts
def load_known_findings():
    p = os.path.join(VERIF, "known_findings.json")
    if not os.path.exists(p):
        return []
    return json.load(open(p)).get("findings", [])


class Check:
    """Collects rule instances for one property run and writes evidence."""

    def __init__(self, prop, level, tier, seed=0):
        self.prop, self.level, self.tier, self.seed = prop, level, tier, seed
        self.t0 = time.time()
        self.evaluations = 0
        self.distinct = set()
        self.samples = []
        self.violations = []     # (key, rule, where, text, extra)
        self.known_hit = []
        self.floors = {}         # rule -> (found, floor)
        self.rule_counts = {}
        self.notes = []
        self.controls = []
        self.extra = {}
        self.assumptions = []
        self.broken = []
        self.known = [k for k in load_known_findings() if k.get("property") == prop]

    # an evaluated rule instance
    def ok(self, rule, key, sample=None, nontrivial=True):
        self.evaluations += 1
        self.rule_counts[rule] = self.rule_counts.get(rule, 0) + 1
        if nontrivial:
            self.distinct.add((rule, key))
        if sample is not None and sum(1 for s in self.samples if s.get("rule") == rule) < 3:
            s = {"rule": rule, "instance": key}
            s.update(sample if isinstance(sample, dict) else {"detail": sample})
            self.samples.append(s)

    def violation(self, rule, key, where, text, extra=None):
        self.evaluations += 1
        self.rule_counts[rule] = self.rule_counts.get(rule, 0) + 1
        self.distinct.add((rule, key))
        for k in self.known:
            if k.get("status", "known") == "known" and k.get("key") == key and k.get("rule", rule) == rule:
                self.known_hit.append((k, where, text))
                return
        for v in self.violations:
            if v[0] == key and v[1] == rule:
                v[4]["instances"] = v[4].get("instances", 1) + 1
                return
        self.violations.append((key, rule, where, text, dict(extra or {})))

    def floor(self, rule, found, floor):
        self.floors[rule] = (found, floor)
        if found < floor:
            self.broken.append("rule %s matched %d instances, hand-confirmed floor is %d"
                               % (rule, found, floor))

    def control(self, name, fired):
        self.controls.append({"control": name, "fired": bool(fired)})
        if not fired:
            self.broken.append("positive control %s did not fire" % name)

    def broke(self, msg):
        self.broken.append(msg)

    def finish(self, explanation, rule_text, extra_cov=None):
        wall = time.time() - self.t0
        rk = getattr(self, "replay_key", None)
        if rk:
            # replay mode: re-evaluated on the current tree; report only the replayed instance
            self.violations = [v for v in self.violations if (v[1], v[0]) == tuple(rk)]
            if not self.violations:
                print("replay: instance %s / %s does not violate on the current tree" % tuple(rk))
        outdir = os.path.join(VERIF, "out", "violations", self.prop)
        replay_paths = []
        if self.violations:
            os.makedirs(outdir, exist_ok=True)
        for (key, rule, where, text, extra) in self.violations:
            fn = os.path.join(outdir, sha(rule, key) + ".json")
            json.dump({"property": self.prop, "rule": rule, "key": key,
                       "where": where, "text": text, "extra": extra},
                      open(fn, "w"), indent=1)
            replay_paths.append(fn)
        cov = {
            "explanation": explanation,
            "evaluations": self.evaluations,
            "distinct_nontrivial": len(self.distinct),
            "rule": rule_text,
            "samples": self.samples[:12] or [{"note": "no instance sampled"}],
            "rule_instances": self.rule_counts,
            "floors": {k: {"found": v[0], "floor": v[1]} for k, v in self.floors.items()},
            "controls_fired": self.controls,
            "known_findings": [k["key"] for (k, _, _) in self.known_hit],
            "notes": self.notes,
        }
        cov.update(self.extra)
        if extra_cov:
            cov.update(extra_cov)
        ev = {"property_id": self.prop, "tier": self.tier, "seed": self.seed,
              "level": self.level, "coverage": cov,
              "assumptions": self.assumptions, "wall_s": round(wall, 2),
              "violations": len(self.violations)}
        os.makedirs(os.path.join(VERIF, "evidence"), exist_ok=True)
        tmp = os.path.join(VERIF, "evidence", ".%s.tmp%d" % (self.prop, os.getpid()))
        json.dump(ev, open(tmp, "w"), indent=1, sort_keys=False)
        os.rename(tmp, os.path.join(VERIF, "evidence", self.prop + ".json"))
        seen = set()
        for (k, where, text) in self.known_hit:
            if k["key"] in seen:
                continue
            seen.add(k["key"])
            print("KNOWN-FINDING: property=%s %s [%s] at %s" % (self.prop, k.get("text", text), k["key"], where))
        for (key, rule, where, text, extra), fn in zip(self.violations, replay_paths):
            print("%s: %s: [%s] %s" % (where, rule, key, text))
            print("VIOLATION property=%s replay=%s" % (self.prop, fn))
        print("[%s] tier=%s evaluations=%d distinct=%d violations=%d known=%d wall=%.1fs"
              % (self.prop, self.tier, self.evaluations, len(self.distinct),
                 len(self.violations), len(seen), wall))
        if self.violations:
            return EXIT_VIOLATION
        if self.broken:
            for b in self.broken:
                print("ANALYSIS-BROKEN property=%s: %s" % (self.prop, b))
            return EXIT_BROKEN
        return EXIT_OK

"""E4: translation validation of the headers sbeppc generates against an
independent reading of the XML (sa/sbe_model.py).  Facts are read from clang's
AST of the generated code (E1) and from E2 summaries of the generated
accessors; nothing is executed.  Scope of every verdict: the schemas of the
build set and the frozen corpus (reported with the schema list).
"""
import re

from common import *
import rint
import schemas
import sbe_model as M
import libsum
from symex import *
from libsum import *

QUICK = ["vlayout", "vheaders", "vprims_le", "vprims_be", "vnames", "vtext", "test_schema", "big_endian_schema",
         "traits_test_schema"]


def schema_list(tier):
    ss = schemas.all_schemas()
    if tier == "thorough":
        return ss
    return [s for s in ss if s.name in QUICK]


_libs = {}


def lib_of(s, std="c++17"):
    k = (s.name, std)
    if k not in _libs:
        facts = schemas.schema_facts(s, std=std, asserts=True)
        _libs[k] = libsum.Lib(facts, "%s %s" % (s.name, std))
    return _libs[k]


def strip_byte(t):
    t = rint.clean(t)
    return t[:-len("<char>")] if t.endswith("<char>") else t


class Ctx:
    """per schema: model, lib, class resolution"""

    def __init__(self, chk, sref, lib):
        self.chk, self.s, self.lib, self.m = chk, sref, lib, sref.model
        self.names = lib.names()
        self.rev = (self.m.byte_order != "littleEndian")
        self.header_size = self.m.header.size if self.m.header else 0

    def xml(self):
        return rel(self.s.xml) if self.s.xml.startswith(REPO) else os.path.relpath(self.s.xml, VERIF)

    def method0(self, cls, name):
        return self.lib.method(cls, name, nparams=0)

    def methods(self, cls, name):
        return [f for f in self.lib.eng.fns.values() if f.get("cls") == cls and f["name"] == name]

    def msg_cls(self, m):
        return self.names.get("msg__" + m.name)

    def group_classes(self, level_cls, g):
        f = self.method0(level_cls, g.name)
        if f is None:
            return None, None
        gcls = rint.clean(f["ret"])
        fr = self.lib.method(gcls, "front", nparams=0)
        ecls = rint.clean(fr["ret"]) if fr else None
        return gcls, ecls

    def levels(self):
        """yield (level model, class of the view with the accessors, header size added to offsets, tag path)"""
        def rec(lvl, cls, hdr, path):
            yield lvl, cls, hdr, path
            for g in lvl.groups:
                gcls, ecls = self.group_classes(cls, g)
                if ecls is None:
                    self.chk.broke("E4 %s: class of group %s not resolvable" % (self.s.name, "::".join(path + [g.name])))
                    continue
                g._gcls = gcls
                yield from rec(g, ecls, 0, path + [g.name])
        for m in self.m.messages:
            cls = self.msg_cls(m)
            if cls is None:
                self.chk.broke("E4 %s: message %s has no name anchor" % (self.s.name, m.name))
                continue
            yield from rec(m, cls, self.header_size, ["messages", m.name])

    def composites(self):
        """yield (composite model, class, tag path) for public and inline composites"""
        def rec(c, cls, path):
            yield c, cls, path
            for el in c.elements:
                if isinstance(el, M.Composite):
                    f = self.method0(cls, el.name)
                    if f is None:
                        self.chk.broke("E4 %s: accessor %s of composite %s not found" % (self.s.name, el.name, "::".join(path)))
                        continue
                    yield from rec(el, rint.clean(f["ret"]), path + [el.name])
        for enc in self.m.type_order:
            if isinstance(enc, M.Composite):
                cls = self.names.get("ty__" + enc.name)
                if cls is None:
                    self.chk.broke("E4 %s: composite %s has no name anchor" % (self.s.name, enc.name))
                    continue
                yield from rec(enc, cls, ["types", enc.name])


def member_layout(ctx, owner, hdr):
    """(name, kind, offset, size, prim, target) for non-constant members of a
    level (fields) or composite (elements)"""
    out = []
    if isinstance(owner, M.Composite):
        for el in owner.elements:
            tgt = el.target if isinstance(el, M.Ref) else el
            if el.is_constant:
                out.append((el.name, "const", None, 0, None, tgt))
                continue
            out.append((el.name, kind_of(tgt), el.offset, el.size, prim_of(ctx, tgt), tgt))
    else:
        for f in owner.fields:
            if f.presence == "constant":
                out.append((f.name, "const", None, 0, None, f.enc))
                continue
            if f.enc is None:
                out.append((f.name, "scalar", f.offset + hdr, f.size, f.primitive, None))
            else:
                out.append((f.name, kind_of(f.enc), f.offset + hdr, f.size, prim_of(ctx, f.enc), f.enc))
    return out


def kind_of(tgt):
    if isinstance(tgt, M.Type):
        return "scalar" if tgt.length == 1 else "array"
    if isinstance(tgt, M.Enum):
        return "enum"
    if isinstance(tgt, M.Set):
        return "set"
    return "composite"


def prim_of(ctx, tgt):
    if isinstance(tgt, M.Type):
        return tgt.primitive
    if isinstance(tgt, (M.Enum, M.Set)):
        return tgt.primitive
    return None


def value_of(rv):
    if isinstance(rv, Obj):
        for k in ("val", "bits"):
            if k in rv.fields:
                return rv.fields[k]
        return None
    return rv


# ------------------------------------------------------------------ accessors
def check_accessors(ctx, owner, cls, hdr, path, rule):
    """normal getters/setters: address, width, byte order (C01, C02)"""
    chk, lib = ctx.chk, ctx.lib
    A, E = sym("this.begin"), sym("this.end")
    ent = "::".join(path)
    for (name, kind, off, size, prim, tgt) in member_layout(ctx, owner, hdr):
        key = "%s::%s" % (ent, name)
        g = ctx.method0(cls, name)
        if g is None:
            chk.violation(rule, "accessor-missing:" + key, ctx.xml(), "no getter `%s()` in %s for schema entity %s" % (name, cls, key))
            continue
        wh = where(g)
        if kind == "const":
            errs = const_errors(ctx, owner, name, tgt, g)
            if errs:
                chk.violation(rule, "const:" + key, wh, "schema %s, constant %s: %s" % (ctx.xml(), key, "; ".join(errs)))
            else:
                chk.ok(rule, "const:" + key, {"entity": key, "where": wh}, nontrivial=True)
            continue
        try:
            p = lib.summary(g).live[0]
        except (AnalysisBroken, IndexError) as e:
            chk.broke("E4 getter %s: %s" % (key, e))
            continue
        errs = []
        if kind in ("scalar", "enum", "set"):
            want = Lin.atom(("wire", A + off, size, ctx.rev and size > 1))
            got = value_of(p.ret)
            if got is None or lin(got) != want:
                errs.append("getter returns %s, expected the %d byte(s) at offset %d %s = %s"
                            % (show(got) if got is not None else show(p.ret), size, off, "byte-swapped" if ctx.rev and size > 1 else "native order", show(want)))
            if writes(p):
                errs.append("getter writes to the buffer")
            if kind == "scalar" and tgt is None and not isinstance(owner, M.Composite):
                # a field declared with a primitive type name: the wrapper class follows the field's presence
                fld = [x for x in owner.fields if x.name == name]
                if fld and prim:
                    want_t = "sbepp::%s_%st" % (prim, "opt_" if fld[0].presence == "optional" else "")
                    if rint.clean(g.get("ret", "")) != want_t:
                        errs.append("getter returns `%s`, a %s field of primitive type %s is `%s`" % (rint.clean(g.get("ret", "")), fld[0].presence, prim, want_t))
            # setter
            st = [f for f in ctx.methods(cls, name) if len(f.get("params") or []) == 1
                  and not (f["params"][0].get("ref"))]
            if not st:
                if not ctx.chk.tier_const_only:
                    errs.append("no setter instantiated")
            else:
                try:
                    ps = lib.summary(st[0]).live[0]
                    w = writes(ps)
                    if len(w) != 1 or lin(w[0][1]) != A + off or lin(w[0][2]) != Lin.const(size):
                        errs.append("setter writes %s, expected exactly [%s, +%d)" % ([(show(e[1]), show(e[2])) for e in w], show(A + off), size))
                    else:
                        data = lin(w[0][3])
                        srcs = [a for a in data.atoms()]
                        # the value written must be the argument's scalar (swapped iff big-endian)
                        okd = False
                        for cand in ("v.val", "v.bits", "v"):
                            base = sym(cand)
                            want_d = Lin.atom(("bswap", size, base)) if (ctx.rev and size > 1) else base
                            if data == want_d:
                                okd = True
                        if not okd:
                            errs.append("setter stores %s, expected the argument %s" % (show(data), "byte-swapped" if ctx.rev and size > 1 else "unchanged"))
                except (AnalysisBroken, IndexError) as e:
                    chk.broke("E4 setter %s: %s" % (key, e))
        else:
            rv = p.ret
            if not isinstance(rv, Obj) or not isinstance(rv.get("begin"), Lin) or rv.get("begin") != A + off or rv.get("end") != E:
                errs.append("getter returns view %s, expected {begin+%d, end}" % (show(rv), off))
            if kind == "array" and isinstance(rv, Obj):
                # static_array_ref<Byte, Value, N, Tag>
                rec = lib.eng.record(rv.cls)
                ta = (rec or {}).get("targs") or []
                want_n = "#%d" % tgt.length
                want_v = M.PRIM_CPP[tgt.primitive]
                if len(ta) < 3 or ta[2] != want_n or rint.clean(ta[1]) != want_v:
                    errs.append("array view type %s, expected element %s x %d" % (rv.cls[-80:], want_v, tgt.length))
        if errs:
            chk.violation(rule, "accessor:" + key, wh, "schema %s, %s (offset %s, %s %s): %s"
                          % (ctx.xml(), key, off, kind, prim or "", "; ".join(errs)))
        else:
            chk.ok(rule, "accessor:" + key, {"entity": key, "offset": off, "size": size, "kind": kind, "where": wh})


def enum_value_of(ctx, ref):
    """numeric / character value of `Enum.name` in the model"""
    en, _, vn = (ref or "").partition(".")
    for enc in ctx.m.type_order:
        if isinstance(enc, M.Enum) and enc.name == en:
            for v in enc.values:
                if v.name == vn:
                    prim = enc.encoding_type
                    for t in ctx.m.type_order:
                        if isinstance(t, M.Type) and t.name == prim:
                            prim = t.primitive
                    return ord(v.value) if prim == "char" else int(v.value)
    return None


def const_errors(ctx, owner, name, tgt, g):
    """a constant member's getter returns the schema's value: a number, a character, an enumerator (valueRef) or,
    for character arrays, a view over a literal holding the text padded with NULs to the declared length"""
    lib = ctx.lib
    errs = []
    try:
        p = lib.summary(g).live[0]
    except (AnalysisBroken, IndexError, Unsupported) as e:
        return ["getter not analysable: %s" % str(e)[:80]]
    fld = None
    if not isinstance(owner, M.Composite):
        fl = [x for x in owner.fields if x.name == name]
        fld = fl[0] if fl else None
    vref = (getattr(fld, "value_ref", None) if fld is not None else None) or getattr(tgt, "value_ref", None)
    r = p.ret
    if writes(p) or reads(p):
        errs.append("touches the buffer")
    if vref:
        want = enum_value_of(ctx, vref)
        got = value_of(r) if not isinstance(r, Lin) else r
        if want is None:
            return errs        # reference not resolvable in the model: nothing to compare
        if not isinstance(got, Lin) or not got.is_const() or got.k != want:
            errs.append("returns %s, valueRef %s is %s" % (show(got) if got is not None else show(r), vref, want))
        return errs
    if not isinstance(tgt, M.Type) or tgt.const_text is None:
        return errs
    text = tgt.const_text
    if tgt.primitive == "char" and tgt.length != 1 or (tgt.primitive == "char" and len(text.encode("utf-8")) > 1):
        want = text.encode("utf-8") + b"\0" * (tgt.length - len(text.encode("utf-8")))
        lits = [n.get("str") for n in walk(g["body"]) if n.get("k") == "StringLiteral"]
        if not isinstance(r, Obj) or not isinstance(r.get("begin"), Lin) or not isinstance(r.get("end"), Lin):
            errs.append("does not return an array view")
        else:
            ln = r.get("end") - r.get("begin")
            if not ln.is_const() or ln.k != tgt.length:
                errs.append("view length %s, declared length %d" % (show(ln), tgt.length))
        if not lits or lits[0].encode("utf-8", "surrogateescape") != want:
            errs.append("literal %r, expected %r (text padded with NULs to %d)" % (lits[0] if lits else None, want, tgt.length))
        return errs
    got = value_of(r) if not isinstance(r, Lin) else r
    if tgt.primitive == "char":
        want = ord(text)
    elif tgt.primitive in ("float", "double"):
        return errs            # floating constants are compared by E4.limits-style text rules elsewhere
    else:
        try:
            want = int(text)
        except ValueError:
            return errs
    if not isinstance(got, Lin) or not got.is_const() or got.k != want:
        errs.append("returns %s, the schema says %s" % (show(got) if got is not None else show(r), want))
    return errs


# ------------------------------------------------------------ cursor accessors
CUR_NAMES = {"get_value", "get_last_value", "get_static_field_view", "get_last_static_field_view",
             "set_value", "set_last_value", "get_first_group_view", "get_group_view", "get_first_data_view",
             "get_data_view"}


def cursor_call(fn):
    """the cursor primitive a generated cursor accessor forwards to: (name, [const args], callee)"""
    for n in walk(fn["body"]):
        c = n.get("callee")
        if c and c.get("name") in CUR_NAMES and ("cursor" in (c.get("cls_tpl") or "")):
            args = n.get("args") or []
            return c["name"], args, c, n
    return None


def inner_getter_name(arg):
    """for get_group_view(*this, [this]{ return this->NAME(); }): NAME"""
    for x in walk(arg):
        if x.get("k") == "LambdaExpr":
            return x.get("callop", {}).get("key")
    return None


def check_cursor_accessors(ctx, lvl, cls, hdr, path, rule):
    chk, lib = ctx.chk, ctx.lib
    ent = "::".join(path)
    nonconst = [f for f in lvl.fields if f.presence != "constant"]
    prev_end = 0
    for i, f in enumerate(nonconst):
        key = "%s::%s" % (ent, f.name)
        is_last = (i == len(nonconst) - 1)
        abs_off = f.offset + hdr
        rel_off = f.offset - prev_end
        prev_end = f.offset + f.size
        kind = "scalar" if f.enc is None else kind_of(f.enc)
        getters = [g for g in ctx.methods(cls, f.name) if len(g.get("params") or []) == 1 and g["params"][0].get("ref")
                   and g["params"][0]["t"].startswith("sbepp::cursor<")]
        setters = [g for g in ctx.methods(cls, f.name) if len(g.get("params") or []) == 2]
        if not getters:
            chk.violation(rule, "cursor-accessor-missing:" + key, ctx.xml(), "no cursor getter for %s in %s" % (key, cls))
            continue
        for g, is_set in [(getters[0], False)] + ([(setters[0], True)] if setters and kind in ("scalar", "enum", "set") else []):
            cc = cursor_call(g)
            if cc is None:
                chk.violation(rule, "cursor-call:" + key, where(g), "cursor accessor of %s does not forward to a cursor primitive" % key)
                continue
            nm, args, callee, node = cc
            want_nm = {(False, False, False): "get_value", (False, True, False): "get_last_value",
                       (True, False, False): "set_value", (True, True, False): "set_last_value",
                       (False, False, True): "get_static_field_view", (False, True, True): "get_last_static_field_view"}[
                (is_set, is_last, kind in ("array", "composite"))]
            errs = []
            if nm != want_nm:
                errs.append("forwards to %s, expected %s (%s non-constant field of the block)" % (nm, want_nm, "last" if is_last else "not the last"))
            try:
                got_rel, got_abs = int(args[1]["cv"]), int(args[2]["cv"])
            except (KeyError, IndexError, ValueError):
                errs.append("offset arguments are not constants")
                got_rel = got_abs = None
            if got_abs is not None and (got_rel != rel_off or got_abs != abs_off):
                errs.append("passes (relative=%s, absolute=%s), schema layout gives (relative=%d, absolute=%d)" % (got_rel, got_abs, rel_off, abs_off))
            ta = callee.get("targs") or []
            if kind in ("scalar", "enum", "set"):
                want_e = "#sbepp::endian::" + ctx.m.endian()
                e_t = ta[0] if is_set else (ta[2] if len(ta) > 2 else None)
                if e_t != want_e:
                    errs.append("byte order argument %s, schema says %s" % (e_t, want_e))
                if not is_set:
                    u = rint.clean(ta[1]) if len(ta) > 1 else "?"
                    usz = type_size(u, lib.eng)
                    if usz != f.size:
                        errs.append("reads %s (%s bytes), schema size is %d" % (u, usz, f.size))
            if errs:
                chk.violation(rule, "cursor-accessor:%s:%s" % (key, "set" if is_set else "get"), where(g),
                              "schema %s, %s: %s" % (ctx.xml(), key, "; ".join(errs)))
            else:
                chk.ok(rule, "cursor-accessor:%s:%s" % (key, "set" if is_set else "get"),
                       {"entity": key, "primitive": nm, "relative": rel_off, "absolute": abs_off})
    # groups and data: chaining
    dyn = [("group", g) for g in lvl.groups] + [("data", d) for d in lvl.data]
    for i, (kd, mbr) in enumerate(dyn):
        key = "%s::%s" % (ent, mbr.name)
        first = (i == 0)
        # random access accessor
        g0 = ctx.method0(cls, mbr.name)
        if g0 is None:
            chk.violation(rule, "accessor-missing:" + key, ctx.xml(), "no accessor for %s" % key)
            continue
        calls = [(n.get("callee") or {}).get("name") for n in walk(g0["body"]) if n.get("callee")]
        want = "get_first_dynamic_field_view" if first else "get_dynamic_field_view"
        errs = []
        if want not in calls:
            errs.append("random-access accessor calls %s, expected %s" % ([c for c in calls if c and "view" in c], want))
        if not first:
            prev = dyn[i - 1][1].name
            if prev not in calls:
                errs.append("member is located after %s, schema order says after %s" % ([c for c in calls if c not in (want, "operator()")], prev))
        cg = [g for g in ctx.methods(cls, mbr.name) if len(g.get("params") or []) == 1 and g["params"][0]["t"].startswith("sbepp::cursor<")]
        if not cg:
            errs.append("no cursor accessor")
        else:
            cc = cursor_call(cg[0])
            wantc = ("get_first_%s_view" if first else "get_%s_view") % kd
            if cc is None or cc[0] != wantc:
                errs.append("cursor accessor forwards to %s, expected %s" % (cc[0] if cc else None, wantc))
            elif not first:
                # the getter lambda must name this very member
                lam_key = inner_getter_name(cc[1][1]) if len(cc[1]) > 1 else None
                lam = lib.eng.fns.get(lam_key) if lam_key else None
                inner = [(n.get("callee") or {}).get("name") for n in walk(lam["body"])] if lam else []
                if mbr.name not in inner:
                    errs.append("cursor getter lambda calls %s, expected this->%s()" % (inner, mbr.name))
        if errs:
            chk.violation(rule, "dynamic-member:" + key, where(g0), "schema %s, %s: %s" % (ctx.xml(), key, "; ".join(errs)))
        else:
            chk.ok(rule, "dynamic-member:" + key, {"entity": key, "position": i, "flavour": want})


# --------------------------------------------------------------- level size
def check_entry_cursor_ctor(ctx, lvl, cls, path, rule):
    """an entry whose cursor is moved by none of its members (no non-constant field, no group, no data) needs the
    generated cursor constructor that checks and skips `block_length` bytes; every other entry must not have it (its
    last member already moves the cursor to the block end)"""
    chk = ctx.chk
    if len(path) < 3:
        return          # message level: the first group / data accessor re-bases the cursor
    ent = "::".join(path)
    needs = not [f for f in lvl.fields if f.presence != "constant"] and not lvl.groups and not lvl.data
    ctors = [f for f in ctx.lib.eng.fns.values() if f.get("cls") == cls and f.get("ctor") and f.get("body") is not None
             and len(f.get("params") or []) == 3 and "sbepp::cursor<" in f["params"][0]["t"] and not f["file"].endswith("sbepp.hpp")]
    key = "entry-cursor-ctor:" + ent
    if needs and not ctors:
        chk.violation(rule, key, ctx.xml(), "entry %s (%s) has no member that moves a cursor and the generated class has no cursor "
                      "constructor skipping block_length: cursor iteration never leaves the entry when the wire blockLength is "
                      "not zero" % (ent, cls))
        return
    if not needs and ctors:
        chk.violation(rule, key, where(ctors[0]), "entry %s has members that move the cursor and also a cursor constructor that skips "
                      "block_length: the cursor is advanced twice" % ent)
        return
    if not needs:
        chk.ok(rule, key, {"entity": ent, "special_ctor": False})
        return
    f = ctors[0]
    errs = []
    bl = f["params"][2]["name"]
    seq = []
    for n in walk(f["body"]):
        if "SBEPP_SIZE_CHECK" in (n.get("mac") or []) and n.get("k") == "BinaryOperator" and n.get("op") == "<=":
            lhs = gen_text(n.get("lhs"))
            seq.append(("check", lhs))
        if n.get("k") == "CompoundAssignOperator" and n.get("op") in ("+=", "-="):
            seq.append((n["op"], gen_text(n.get("lhs")), gen_text(n.get("rhs"))))
    # the macro has two `<=` conjuncts (`begin <= end` and `offset + size <= end - begin`): the size conjunct is
    # the one whose left side mentions the block length
    checks = [x for x in seq if x[0] == "check" and bl in x[1]]
    moves = [x for x in seq if x[0] in ("+=", "-=")]
    if not checks:
        errs.append("no SBEPP_SIZE_CHECK over block_length bytes (found %s)" % checks)
    if len(moves) != 1 or moves[0][0] != "+=" or "pointer()" not in moves[0][1] or moves[0][2].strip("()") != bl:
        errs.append("cursor must be advanced by exactly `c.pointer() += block_length` (found %s)" % moves)
    elif checks and seq.index(checks[0]) > seq.index(moves[0]):
        errs.append("the size check comes after the cursor move")
    if errs:
        chk.violation(rule, key, where(f), "cursor constructor of entry %s: %s" % (ent, "; ".join(errs)))
    else:
        chk.ok(rule, key, {"entity": ent, "special_ctor": True})


def gen_text(n):
    import gen
    return gen.expr_text(n, 0, None) if n is not None else ""


def check_level_size(ctx, lvl, cls, hdr, path, rule):
    chk, lib = ctx.chk, ctx.lib
    key = "::".join(path)
    f = lib.method(cls, "operator()", "::size_bytes_tag", 1)
    if f is None or not f["file"].startswith(os.path.dirname(os.path.dirname(ctx_gen_file(ctx)))):
        pass
    if f is None:
        chk.violation(rule, "level-size-missing:" + key, ctx.xml(), "no size_bytes for %s" % key)
        return
    calls = [(n.get("callee") or {}).get("name") for n in walk(f["body"]) if n.get("callee")]
    if lvl.flat:
        try:
            p = lib.summary(f).live[0]
            bl, _ = lib.tag_call(cls, "get_block_length_tag", "this")
            want = lin(bl) + hdr
            if p.ret is None or lin(p.ret) != want:
                chk.violation(rule, "level-size:" + key, where(f), "size_bytes of flat level %s = %s, expected header %d + wire blockLength = %s"
                              % (key, show(p.ret), hdr, show(want)))
            else:
                chk.ok(rule, "level-size:" + key, {"entity": key, "size": show(p.ret)})
        except (AnalysisBroken, IndexError) as e:
            chk.broke("E4 level size %s: %s" % (key, e))
    else:
        last = (lvl.data or lvl.groups)[-1].name
        if last not in calls:
            chk.violation(rule, "level-size:" + key, where(f), "size_bytes of %s is computed from %s, the last member in schema order is %s"
                          % (key, [c for c in calls if c not in ("addressof", "size_bytes", "operator()")], last))
        else:
            chk.ok(rule, "level-size:" + key, {"entity": key, "last_member": last})


def ctx_gen_file(ctx):
    return ctx.lib.facts["functions"][0]["file"]


# ------------------------------------------------------------------- fillers
def header_elem(ctx, comp, name):
    el = comp.element(name)
    if el is None:
        return None
    return el


def check_fillers(ctx, rule):
    chk, lib, m = ctx.chk, ctx.lib, ctx.m
    A = sym("this.begin")
    for lvl, cls, hdr, path in ctx.levels():
        is_msg = isinstance(lvl, M.Message)
        key = "::".join(path)
        if is_msg:
            owner_cls, comp = cls, m.header
            f = [x for x in lib.eng.fns.values() if x.get("cls") == owner_cls and x["name"] == "operator()"
                 and (x.get("params") or [{}])[0].get("t", "").endswith("::fill_message_header_tag")]
            want = {"schemaId": m.id, "templateId": lvl.id, "version": m.version, "blockLength": lvl.block_length}
        else:
            owner_cls, comp = lvl._gcls, lvl.header
            f = [x for x in lib.eng.fns.values() if x.get("cls") == owner_cls and x["name"] == "operator()"
                 and (x.get("params") or [{}])[0].get("t", "").endswith("::fill_group_header_tag")]
            want = {"blockLength": lvl.block_length, "numInGroup": "num_in_group"}
        if comp.element("numGroups") is not None:
            want["numGroups"] = len(lvl.groups)
        if comp.element("numVarDataFields") is not None:
            want["numVarDataFields"] = len(lvl.data)
        if not f:
            chk.violation(rule, "filler-missing:" + key, ctx.xml(), "no header filler instantiated for %s" % key)
            continue
        f = f[0]
        try:
            p = lib.summary(f).live[0]
        except (AnalysisBroken, IndexError) as e:
            chk.broke("E4 filler %s: %s" % (key, e))
            continue
        exp = {}
        for nm, val in want.items():
            el = comp.element(nm)
            sz = el.size
            off = el.offset
            exp[(off, sz)] = (nm, val)
        got = {}
        errs = []
        for e in writes(p):
            a = lin(e[1]) - A
            if not a.is_const() or not lin(e[2]).is_const():
                errs.append("write at non-constant header offset %s" % show(e[1]))
                continue
            got[(a.k, lin(e[2]).k)] = e[3]
        for k2, (nm, val) in exp.items():
            if k2 not in got:
                errs.append("%s (offset %d, %d bytes) is not written" % ((nm,) + k2))
                continue
            data = lin(got[k2])
            sz = k2[1]
            if isinstance(val, int):
                wantd = Lin.const(int.from_bytes(val.to_bytes(sz, "little"), "big")) if (ctx.rev and sz > 1) else Lin.const(val)
                if data != wantd:
                    raw = data.k if data.is_const() else None
                    if raw is not None and ctx.rev and sz > 1:
                        raw = int.from_bytes((raw & ((1 << (8 * sz)) - 1)).to_bytes(sz, "big"), "little")
                    errs.append("%s is filled with %s, schema value is %d" % (nm, raw if raw is not None else show(data), val))
            else:
                ok_d = False
                for base in (sym("num_in_group.val"), sym("num_in_group")):
                    if data == (Lin.atom(("bswap", sz, base)) if (ctx.rev and sz > 1) else base):
                        ok_d = True
                if not ok_d:
                    errs.append("%s is filled with %s, expected the num_in_group argument" % (nm, show(data)))
        extra = [k2 for k2 in got if k2 not in exp]
        if extra:
            errs.append("filler also writes header bytes %s" % extra)
        outside = [k2 for k2 in got if k2[0] + k2[1] > comp.size]
        if outside:
            errs.append("filler writes outside the %d-byte header: %s" % (comp.size, outside))
        rv = p.ret
        if not isinstance(rv, Obj) or rv.get("begin") != A:
            errs.append("filler returns %s, expected a view of the header at begin" % show(rv))
        if errs:
            chk.violation(rule, "filler:" + key, where(f), "schema %s, header filler of %s: %s" % (ctx.xml(), key, "; ".join(errs)))
        else:
            chk.ok(rule, "filler:" + key, {"entity": key, "written": {nm: (val if isinstance(val, int) else "arg") for nm, val in want.items()},
                                           "header": comp.name})


# -------------------------------------------------------------------- visiting
def or_chain(n):
    """flatten a || chain into its operands, in evaluation order"""
    n = strip_to_expr(n)
    if n is not None and n.get("k") == "BinaryOperator" and n.get("op") == "||":
        return or_chain(n["lhs"]) + or_chain(n["rhs"])
    return [("other-op:" + n.get("op"), n)] if (n is not None and n.get("k") == "BinaryOperator" and n.get("op") in ("|", "&&", "&")) else [("ok", n)]


def strip_to_expr(n):
    while n is not None and n.get("k") in ("ImplicitCastExpr", "ExprWithCleanups", "ParenExpr") and n.get("sub") is not None:
        n = n["sub"]
    return n


def visit_triples(fn):
    """ordered (callback, accessor, tag) of a generated visit_children body"""
    ret = None
    for n in walk(fn["body"]):
        if n.get("k") == "ReturnStmt":
            ret = n.get("sub")
            break
    if ret is None:
        return None, "no return statement"
    ops = or_chain(ret)
    out = []
    for st, n in ops:
        if st != "ok":
            return None, "operands are joined with %s, not with ||" % st.split(":")[1]
        n = strip_to_expr(n)
        if n is None:
            continue
        if "cv" in n:
            out.append(("const", n["cv"], None))
            continue
        c = n.get("callee") or {}
        cb = c.get("name")
        args = n.get("args") or []
        acc = None
        tag = None
        if args:
            for x in walk(args[0]):
                cc = x.get("callee")
                if cc and x.get("k") == "CXXMemberCallExpr":
                    acc = cc.get("name")
                    break
            tag = rint.clean(args[-1].get("t"))
        out.append((cb, acc, tag))
    return out, None


def check_visit(ctx, rule):
    chk, lib = ctx.chk, ctx.lib
    for lvl, cls, hdr, path in ctx.levels():
        key = "::".join(path)
        fs = [x for x in lib.eng.fns.values() if x.get("cls") == cls and x["name"] == "operator()"
              and (x.get("params") or [{}])[0].get("t", "").endswith("::visit_children_tag")]
        if not fs:
            chk.violation(rule, "visit-missing:" + key, ctx.xml(), "visit_children not instantiated for %s" % key)
            continue
        want = []
        for f in lvl.fields:
            if f.presence != "constant":
                want.append(("on_field", f.name, ctx.names.get("tag__" + "__".join(path + [f.name]))))
        for g in lvl.groups:
            want.append(("on_group", g.name, ctx.names.get("tag__" + "__".join(path + [g.name]))))
        for d in lvl.data:
            want.append(("on_data", d.name, ctx.names.get("tag__" + "__".join(path + [d.name]))))
        got, err = visit_triples(fs[0])
        if err is None:
            if not want:
                if got != [("const", "0", None)]:
                    err = "empty level must visit nothing and return false, got %s" % (got,)
            elif got != want:
                err = "visits %s, schema order is %s" % ([(a, b, (c or "")[-40:]) for a, b, c in got], [(a, b, (c or "")[-40:]) for a, b, c in want])
        if err:
            chk.violation(rule, "visit:" + key, where(fs[0]), "schema %s, visit_children of %s: %s" % (ctx.xml(), key, err))
        else:
            chk.ok(rule, "visit:" + key, {"entity": key, "members": [b for a, b, c in want]})
    for comp, cls, path in ctx.composites():
        key = "::".join(path)
        fs = [x for x in lib.eng.fns.values() if x.get("cls") == cls and x["name"] == "operator()"
              and (x.get("params") or [{}])[0].get("t", "").endswith("::visit_children_tag")]
        if not fs:
            chk.violation(rule, "visit-missing:" + key, ctx.xml(), "visit_children not instantiated for composite %s" % key)
            continue
        want = []
        for el in comp.elements:
            if el.is_constant:
                continue
            tgt = el.target if isinstance(el, M.Ref) else el
            cb = {"scalar": "on_type", "array": "on_type", "enum": "on_enum", "set": "on_set", "composite": "on_composite"}[kind_of(tgt)]
            want.append((cb, el.name, ctx.names.get("tag__" + "__".join(path + [el.name]))))
        got, err = visit_triples(fs[0])
        if err is None:
            if not want:
                if got != [("const", "0", None)]:
                    err = "empty composite must visit nothing, got %s" % (got,)
            elif got != want:
                err = "visits %s, schema order is %s" % ([(a, b, (c or "")[-40:]) for a, b, c in got], [(a, b, (c or "")[-40:]) for a, b, c in want])
        if err:
            chk.violation(rule, "visit:" + key, where(fs[0]), "schema %s, visit_children of composite %s: %s" % (ctx.xml(), key, err))
        else:
            chk.ok(rule, "visit:" + key, {"entity": key, "members": [b for a, b, c in want]})
    # enums: one case per validValue, default -> unknown tag
    for enc, tpath in enum_list(ctx):
        key = "::".join(tpath)
        cands = [f for f in lib.eng.fns.values() if f["name"] == "tag_invoke" and f.get("params") and len(f["params"]) == 3
                 and rint.clean(f["params"][1]["t"]) == ctx.enum_cls.get(key)]
        if not cands:
            continue
        fn = cands[0]
        cases = []
        default_tag = None
        for n in walk(fn["body"]):
            if n.get("k") == "CaseStmt":
                tagt = None
                for x in walk(n.get("sub")):
                    c = x.get("callee")
                    if c and c.get("name") == "on_enum_value":
                        tagt = rint.clean((x.get("args") or [{}])[-1].get("t"))
                        break
                cases.append((int(n["lhs"]["cv"]), tagt))
            elif n.get("k") == "DefaultStmt":
                for x in walk(n.get("sub")):
                    c = x.get("callee")
                    if c and c.get("name") == "on_enum_value":
                        default_tag = rint.clean((x.get("args") or [{}])[-1].get("t"))
        want = []
        for v in enc.values:
            val = ord(v.value[0]) if enc.primitive == "char" else int(v.value)
            want.append((val, ctx.names.get("tag__" + "__".join(tpath + [v.name]))))
        errs = []
        if sorted(cases) != sorted(want):
            errs.append("cases %s, schema validValues %s" % (cases, want))
        if default_tag != "sbepp::unknown_enum_value_tag":
            errs.append("default reports %s, expected sbepp::unknown_enum_value_tag" % default_tag)
        if errs:
            chk.violation(rule, "enum-visit:" + key, where(fn), "schema %s, enum %s: %s" % (ctx.xml(), key, "; ".join(errs)))
        else:
            chk.ok(rule, "enum-visit:" + key, {"entity": key, "cases": len(cases)})


def check_by_tag(ctx, rule):
    """by-tag accessors (`operator()(access_by_tag_tag, Tag, Args&&... args)`) hand their arguments on to the named
    accessor: every argument is taken by (forwarding) reference - a cursor taken by value is a copy, the caller's cursor
    does not move and the next by-tag call reads from the wrong position - and the callee is the member named like the
    tag's entity"""
    chk = ctx.chk
    root = ctx_gen_file(ctx)
    n = 0
    seen = set()
    for fn in ctx.lib.facts["functions"]:
        ps = fn.get("params") or []
        if len(ps) < 3 or not ps[0].get("t", "").endswith("access_by_tag_tag") or fn.get("body") is None:
            continue
        if fn.get("file", "").endswith("sbepp.hpp") or "_harness" in fn.get("file", "") or fn.get("file", "").endswith("vh_common.hpp"):
            continue
        cls = (fn.get("cls") or "").replace("<const char>", "<char>")
        tag = ps[1].get("t", "")
        k = (cls, tag)
        if k in seen:
            continue
        seen.add(k)
        n += 1
        def by_value(t):
            t = (t or "").rstrip()
            pack = t.endswith("...")
            core = t[:-3].rstrip() if pack else t
            if core.endswith("&"):
                return False
            # a by-value pack swallows cursors; so does a by-value cursor / cursor wrapper; plain scalars (the `bool` of a
            # choice setter) are values anyway
            return pack or "cursor" in core
        byval = [p.get("t") for p in ps[2:] if by_value(p.get("t"))]
        key = "by-tag:%s:%s" % (cls.split("::")[-1], tag.split("::")[-1])
        if byval:
            chk.violation(rule, "by-tag-args:" + cls.split("::")[-1], where(fn),
                          "by-tag accessor of %s for %s takes %s by value: a cursor handed to get_by_tag / set_by_tag is copied, the "
                          "caller's cursor stays where it was" % (cls, tag.split("::")[-1], byval[:2]))
        else:
            chk.ok(rule, key, {"params": [p.get("t") for p in ps[2:]][:2]})
    return n


def enum_list(ctx):
    out = []
    ctx.enum_cls = {}

    def rec(enc, path, cls):
        if isinstance(enc, M.Enum):
            out.append((enc, path))
            ctx.enum_cls["::".join(path)] = cls
        elif isinstance(enc, M.Composite):
            for el in enc.elements:
                if isinstance(el, (M.Enum, M.Composite)):
                    f = ctx.method0(cls, el.name)
                    if f:
                        rec(el, path + [el.name], rint.clean(f["ret"]))
    for enc in ctx.m.type_order:
        cls = ctx.names.get("ty__" + enc.name)
        if cls:
            rec(enc, ["types", enc.name], cls)
    return out


# --------------------------------------------------------- min / max / null
INT_DEFAULTS = {}
for _p, (_w, _s) in {"int8": (8, 1), "int16": (16, 1), "int32": (32, 1), "int64": (64, 1),
                     "uint8": (8, 0), "uint16": (16, 0), "uint32": (32, 0), "uint64": (64, 0)}.items():
    if _s:
        INT_DEFAULTS[_p] = (-(1 << (_w - 1)) + 1, (1 << (_w - 1)) - 1, -(1 << (_w - 1)))
    else:
        INT_DEFAULTS[_p] = (0, (1 << _w) - 2, (1 << _w) - 1)
INT_DEFAULTS["char"] = (0x20, 0x7e, 0)


def fp_const(v):
    """('num', float) / ('fn', name) for a floating constant returned by a generated function"""
    if isinstance(v, Lin) and len(v.terms) == 1 and v.k == 0 and v.terms[0][1] == 1:
        a = v.terms[0][0]
        if a[0] == "float":
            return ("num", float(a[1]))
        if a[0] == "call":
            return ("fn", str(a[1]).split("::")[-1])
        if a[0] == "cast":
            return fp_const(a[2])
    if isinstance(v, Lin) and v.is_const():
        return ("num", float(v.k))
    if isinstance(v, Lin) and len(v.terms) == 1 and v.terms[0][1] == -1 and v.k == 0:
        inner = fp_const(Lin.atom(v.terms[0][0]))
        if inner and inner[0] == "num":
            return ("num", -inner[1])
        if inner and inner[0] == "fn":
            return ("fn", "-" + inner[1])
    return None


def check_minmaxnull(ctx, rule):
    import struct
    chk, lib = ctx.chk, ctx.lib
    todo = []

    def rec(enc, cls, path):
        if isinstance(enc, M.Type):
            if not enc.is_constant and enc.length == 1:
                todo.append((enc, cls, path))
        elif isinstance(enc, M.Composite):
            for el in enc.elements:
                if isinstance(el, (M.Type, M.Composite)):
                    f = ctx.method0(cls, el.name)
                    if f is None:
                        continue
                    rec(el, rint.clean(f["ret"]), path + [el.name])
    for enc in ctx.m.type_order:
        cls = ctx.names.get("ty__" + enc.name)
        if cls:
            rec(enc, cls, ["types", enc.name])
    for t, cls, path in todo:
        key = "::".join(path)
        prim = t.primitive
        for which, text in (("min", t.min), ("max", t.max), ("null", t.null if t.presence == "optional" else None)):
            if which == "null" and t.presence != "optional":
                continue
            f = ctx.method0(cls, which + "_value")
            if f is None:
                chk.violation(rule, "limit-missing:%s:%s" % (key, which), ctx.xml(), "%s has no %s_value()" % (key, which))
                continue
            got = lib.summary(f).live[0].ret
            errs = None
            if prim in ("float", "double"):
                g = fp_const(got)
                if text is None:
                    want = {"min": ("fn", "min"), "max": ("fn", "max"), "null": ("fn", "quiet_NaN")}[which]
                elif text == "NaN":
                    want = ("fn", "quiet_NaN")
                elif text in ("INF", "+INF"):
                    want = ("fn", "infinity")
                elif text == "-INF":
                    want = ("fn", "-infinity")
                else:
                    want = ("num", float(text))
                if g is None:
                    errs = "returns %s" % show(got)
                elif want[0] == "num":
                    a, b = g[1] if g[0] == "num" else None, want[1]
                    if a is None:
                        errs = "returns %s, schema says %s" % (g, text)
                    else:
                        if prim == "float":
                            a = struct.unpack("f", struct.pack("f", a))[0]
                            b = struct.unpack("f", struct.pack("f", b))[0]
                        if a != b:
                            errs = "returns %r, schema says %s" % (a, text)
                elif g != want:
                    errs = "returns %s, expected std::numeric_limits<%s>::%s()" % (g, prim, want[1])
            else:
                if text is None:
                    want = INT_DEFAULTS[prim][{"min": 0, "max": 1, "null": 2}[which]]
                else:
                    want = int(text)
                if not (isinstance(got, Lin) and got.is_const() and got.k == want):
                    errs = "returns %s, %s is %d" % (show(got), "schema says" if text is not None else "the SBE default of %s" % prim, want)
            if errs:
                chk.violation(rule, "limit:%s:%s" % (key, which), where(f), "schema %s, %s %s_value(): %s" % (ctx.xml(), key, which, errs))
            else:
                chk.ok(rule, "limit:%s:%s" % (key, which), {"entity": key, "primitive": prim, "explicit": text})


# --------------------------------------------------------------------- driver
def check(chk, which, tier, only=None):
    chk.tier_const_only = False
    n_s = 0
    progs = []
    for s in schema_list(tier):
        if only and s.name not in only:
            continue
        try:
            lib = lib_of(s)
        except AnalysisBroken as e:
            chk.broke("E4: %s" % e)
            continue
        ctx = Ctx(chk, s, lib)
        n_s += 1
        progs.append(s.name)
        if "accessors" in which:
            for lvl, cls, hdr, path in ctx.levels():
                check_accessors(ctx, lvl, cls, hdr, path, "E4.accessor")
            for comp, cls, path in ctx.composites():
                check_accessors(ctx, comp, cls, 0, path, "E4.accessor")
        if "cursor" in which:
            for lvl, cls, hdr, path in ctx.levels():
                check_cursor_accessors(ctx, lvl, cls, hdr, path, "E4.cursor")
                check_entry_cursor_ctor(ctx, lvl, cls, path, "E4.cursor")
        if "level_size" in which:
            for lvl, cls, hdr, path in ctx.levels():
                check_level_size(ctx, lvl, cls, hdr, path, "E4.level_size")
        if "fillers" in which:
            check_fillers(ctx, "E4.filler")
        if "visit" in which:
            check_visit(ctx, "E4.visit")
            check_by_tag(ctx, "E4.bytag")
        if "traits" in which:
            import e4traits
            e4traits.check_traits(ctx, "E4.traits")
        if "minmaxnull" in which:
            check_minmaxnull(ctx, "E4.limits")
        if "size_bytes" in which:
            import e4traits
            e4traits.check_size_bytes_trait(ctx, "E4.size_bytes")
    chk.extra["programs"] = n_s
    chk.extra["schemas"] = progs
    import gcov
    gcov.attach(chk, set(progs))     # which generator templates these schemas reach (evidence only)
    return n_s

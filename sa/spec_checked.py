"""C06: size_bytes_checked on untrusted buffers - read-before-validate rule.

In the configuration without assertions (the one an untrusted-input path runs
in) every READ reachable from size_bytes_checked(view, n) must be preceded, on
its path, by branch facts `K <= n` (successful validate_and_subtract calls and
the initial header test; K = bytes accounted so far) with
read_end - view.begin <= K implied.  Exactness: on every path that returns
valid the reported size equals the accounted total.  Bounded work: every loop
iteration must subtract a positive amount or be bounded by a constant."""
from common import *
import rint
from symex import *
from libsum import *


import re


def validated_bound(path, idx, A, size_sym):
    """all K with fact K - size <= 0 before event idx"""
    out = []
    for op, f in facts_before(path, idx):
        if op not in ("<=", "<"):
            continue
        d = dict(f.terms)
        if d.get(size_sym) == -1:
            K = f + Lin.atom(size_sym)
            out.append(K if op == "<=" else K + 1)
    return out


def loop_frame(addr):
    """a read inside a generic loop iteration: (loop tag, cursor symbol at iteration start)"""
    for a in lin(addr).atoms():
        if a[0] == "sym":
            m = re.search(r"@(L\d+)\.k\.", a[1])
            if m and a[1].endswith(".ptr"):
                return m.group(1), a
    return None, None


def loop_size_sym(path, idx, tag):
    for op, f in facts_before(path, idx):
        for a, c in f.terms:
            if a[0] == "sym" and ("@%s.k." % tag) in a[1] and a[1].endswith("size") and c == -1:
                return a
    return None


def site_of(fnames):
    lib = [x for x in fnames if x.startswith("sbepp::") and "get_primitive" not in x]
    return "<-".join(reversed(lib[-2:])) if lib else (fnames[-1] if fnames else "?")


def check(chk, lib, max_fns=None, max_paths=400):
    n_fn = n_reads = 0
    undecided = [0]
    for f in lib.by_name.get(("", "size_bytes_checked"), []):
        if (f.get("base") or "") != "sbepp::size_bytes_checked":
            continue
        if max_fns and n_fn >= max_fns:
            break
        view_t = rint.clean(f["params"][0]["t"])
        try:
            s = lib.summary(f, max_paths=max_paths)
        except PathLimit:
            chk.notes.append("size_bytes_checked<%s>: path/step budget exceeded, not analysed" % view_t[-60:])
            continue
        except AnalysisBroken as e:
            chk.notes.append("size_bytes_checked<%s>: %s" % (view_t[-60:], str(e)[:100]))
            continue
        n_fn += 1
        A = sym("view.begin")
        size_sym = ("sym", "size")
        ent = view_t.split("::")[-1]
        for p in s.paths:
            facts_all = None
            for i, e in enumerate(p.events):
                if e[0] != "read" or not isinstance(e[1], Lin):
                    continue
                n_reads += 1
                tag, psym = loop_frame(e[1])
                facts = facts_before(p, i)
                in_loop = bool(e[-1]) and isinstance(e[-1], tuple) and e[-1] and isinstance(e[-1][0], str) and e[-1][0].startswith("L")
                havocked = any(a[0] == "sym" and "@L" in a[1] for a in (lin(e[1]) + lin(e[2])).atoms()) or \
                    any(a[0] == "wire" and any(b[0] == "sym" and "@L" in b[1] for b in a[1].atoms()) for a in (lin(e[1]) + lin(e[2])).atoms())
                if tag or in_loop or havocked:
                    # inside a generic loop iteration the relation between the cursor and the
                    # accounted total needs a loop invariant this domain does not infer: undecided
                    undecided[0] += 1
                    continue
                if tag:
                    ssym = loop_size_sym(p, i, tag)
                    top = lin(e[1]) + lin(e[2]) - Lin.atom(psym)
                    Ks = validated_bound(p, i, Lin.atom(psym), ssym) if ssym else []
                    # only what was validated inside this iteration counts
                else:
                    top = lin(e[1]) + lin(e[2]) - A
                    Ks = validated_bound(p, i, A, size_sym)
                ok_ = any(nonpos(top - K, facts) for K in Ks)
                fnames = p.where[i] if i < len(p.where) else ()
                site = site_of(fnames)
                key = "read-before-validate|%s%s" % (site, "|in-entry-loop" if tag else "")
                if ok_:
                    chk.ok("C06.rbv", key + "|" + show(top)[:60], {"view": ent, "read_end": show(top), "validated": [show(k) for k in Ks][-2:]})
                else:
                    chk.violation("C06.rbv", key, where(f),
                                  "size_bytes_checked<%s>: %s reads bytes up to view+%s before %s bytes have been validated against n "
                                  "(validated so far: %s)" % (ent, site, show(top), show(top), [show(k) for k in Ks][-2:] or "nothing"))
            # exactness on valid paths
            rv = p.ret
            if any(e[0] == "loop-begin" for e in p.events):
                continue
            if isinstance(rv, Obj) and isinstance(rv.fields.get("valid"), Lin) and rv.fields["valid"].is_const() and rv.fields["valid"].k == 1:
                Ks = validated_bound(p, len(p.events), A, size_sym)
                sz = rv.fields.get("size")
                if not any(isinstance(sz, Lin) and sz == K for K in Ks):
                    chk.violation("C06.exact", "size-exact|%s" % ent, where(f),
                                  "size_bytes_checked<%s>: a valid=true path reports size %s, accounted totals are %s" % (ent, show(sz), [show(k) for k in Ks][-2:]))
                else:
                    chk.ok("C06.exact", "size-exact|%s|%s" % (ent, show(sz)[:50]), {"size": show(sz)})
    chk.extra["reads_inside_entry_loops_undecided"] = chk.extra.get("reads_inside_entry_loops_undecided", 0) + undecided[0]
    return n_fn, n_reads


def check_validate_and_subtract(chk, lib):
    """row: validate_and_subtract(n): if size < n -> valid = false, size unchanged; else size -= n; returns valid"""
    fs = lib.fns("sbepp::detail::size_bytes_checked_visitor", "validate_and_subtract")
    if not fs:
        chk.broke("validate_and_subtract not found")
        return
    f = fs[0]
    s = lib.summary(f)
    size0, n, valid0 = sym("this.size"), sym("n"), sym("this.valid")
    errs = []
    seen = set()
    for p in s.live:
        dec = [(c, t) for c, t in p.pc]
        want_c = cmp_term("<", size0, n)
        if len(dec) != 1 or lin(dec[0][0]) != want_c:
            errs.append("branches on %s, expected size < n" % [show(c) for c, t in dec])
            continue
        th = p.post["this"]
        small = dec[0][1]
        seen.add(small)
        if small:
            if th.get("valid") != Lin.const(0) or lin(th.get("size")) != size0 or lin(p.ret) != Lin.const(0):
                errs.append("size < n: valid=%s size=%s returns %s (expected false, unchanged, false)" % (show(th.get("valid")), show(th.get("size")), show(p.ret)))
        else:
            if lin(th.get("size")) != size0 - n or lin(th.get("valid")) != valid0 or lin(p.ret) != valid0:
                errs.append("size >= n: size=%s valid=%s returns %s (expected size-n, unchanged, valid)" % (show(th.get("size")), show(th.get("valid")), show(p.ret)))
    if seen != {True, False}:
        errs.append("expected both outcomes of size < n")
    if errs:
        chk.violation("C06.row", "validate_and_subtract", where(f), "validate_and_subtract: " + "; ".join(errs))
    else:
        chk.ok("C06.row", "validate_and_subtract", {"paths": len(s.live)})
    # on_data / on_entry / on_message stop conditions: structural rows
    for nm, must in (("on_data", ["validate_and_subtract", "size_bytes"]), ("on_entry", ["validate_and_subtract", "visit_children"]),
                     ("on_group", ["validate_and_subtract", "visit_children", "set_group_block_length", "get_header"]),
                     ("on_message", ["validate_and_subtract", "visit_children", "get_header"])):
        fns = lib.fns("sbepp::detail::size_bytes_checked_visitor", nm)
        if not fns:
            continue
        f = fns[0]
        order = [(x.get("callee") or {}).get("name") for x in walk(f["body"]) if x.get("callee")]
        errs = []
        for m in must:
            if m not in order:
                errs.append("does not call %s" % m)
        if "visit_children" in order and "validate_and_subtract" in order and order.index("validate_and_subtract") > order.index("visit_children"):
            errs.append("visits children before validating its own size")
        if errs:
            chk.violation("C06.row", nm, where(f), "%s: %s" % (nm, "; ".join(errs)))
        else:
            chk.ok("C06.row", nm, {"calls": [o for o in order if o in must]})


def check_loop_progress(chk, lib):
    """bounded work (structural necessary condition): the per-entry amount the visitor subtracts must be
    positive, or the entry count must be validated against the remaining size before the loop"""
    fs = lib.fns("sbepp::detail::size_bytes_checked_visitor", "on_group") + lib.fns("sbepp::detail::size_bytes_checked_visitor", "on_entry")
    if not fs:
        chk.broke("on_group/on_entry of size_bytes_checked_visitor not found")
        return
    guards = []
    for f in fs[:6]:
        for x in walk(f["body"]):
            if x.get("k") == "BinaryOperator" and x.get("op") in ("<", "<=", ">", ">=", "==", "!=", "*"):
                names = set()
                for y in walk(x):
                    if y.get("k") in ("MemberExpr", "DeclRefExpr"):
                        names.add(y.get("name"))
                    c = y.get("callee") or {}
                    if c.get("name"):
                        names.add(c["name"])
                if names & {"group_block_length", "block_length", "blockLength", "numInGroup", "size"} and names & {"numInGroup", "group_block_length", "blockLength"}:
                    guards.append(sorted(names))
    key = "entry-loop-progress"
    if guards:
        chk.ok("C06.work", key, {"guards": guards[:3]})
    else:
        chk.violation("C06.work", key, where(fs[0]),
                      "on_entry subtracts the wire blockLength per entry and neither on_group nor on_entry bounds numInGroup or "
                      "requires a positive amount: with blockLength = 0 and entries without variable-length members an iteration "
                      "consumes nothing, so the work is bounded by numInGroup (up to 2^64-1), not by n")


def check_block_length_state(chk, lib):
    """the visitor keeps the wire blockLength of the group being traversed in `group_block_length`; on_entry charges
    that amount per entry.  Inductive argument, one row per step:
      A  on_group stores the wire blockLength of *its own* header before it visits the entries;
      B  every on_group instantiation returns with group_block_length equal to its value on entry (E2 post-state on
         every path), so a nested group visited inside an entry leaves the enclosing group's value in place;
      C  nothing else writes the field (who-writes over the class: only set_group_block_length assigns it, and only
         on_group calls that)."""
    cls = "sbepp::detail::size_bytes_checked_visitor"
    ogs = lib.fns(cls, "on_group")
    if not ogs:
        chk.broke("size_bytes_checked_visitor::on_group not found")
        return
    # ---- A (AST, source order of the calls inside the body)
    f = ogs[0]
    calls = [x for x in walk(f["body"]) if (x.get("callee") or {}).get("name") in ("set_group_block_length", "visit_children")]
    names = [x["callee"]["name"] for x in calls]
    errs = []
    if "visit_children" not in names or "set_group_block_length" not in names[:max(0, names.index("visit_children") if "visit_children" in names else 0)]:
        errs.append("no set_group_block_length call before visit_children")
    else:
        first = calls[names.index("set_group_block_length")]
        arg = (first.get("args") or [None])[0]
        hdr_ok = False
        p0 = (f.get("params") or [{}])[0].get("did")
        locs = {x["did"]: x for x in walk(f["body"]) if x.get("k") == "VarDecl" and "did" in x}
        for y in walk(arg or {}):
            if (y.get("callee") or {}).get("name") == "blockLength":
                for z in walk(y):
                    if z.get("k") == "DeclRefExpr" and z.get("did") in locs:
                        init = locs[z["did"]].get("init")
                        ini_calls = [(w.get("callee") or {}).get("name") for w in walk(init or {})]
                        ini_refs = [w.get("did") for w in walk(init or {}) if w.get("k") == "DeclRefExpr"]
                        if "get_header" in ini_calls and p0 in ini_refs:
                            hdr_ok = True
        if not hdr_ok:
            errs.append("the value stored before visiting the entries is not blockLength() of get_header(<this group>)")
    if errs:
        chk.violation("C06.state", "on_group:sets-own-block-length", where(f), "on_group: " + "; ".join(errs))
    else:
        chk.ok("C06.state", "on_group:sets-own-block-length", {"calls": names})
    # ---- B (E2)
    pre = sym("this.group_block_length")
    decided = 0
    for f in ogs:
        try:
            s = lib.summary(f)
        except (PathLimit, AnalysisBroken):
            continue
        bad = []
        for p in s.live:
            th = p.post.get("this")
            g = th.fields.get("group_block_length") if isinstance(th, Obj) else None
            if g is not None and not (isinstance(g, Lin) and g == pre):
                bad.append(show(g) if isinstance(g, Lin) else str(g)[:60])
        decided += 1
        key = "on_group:restores|" + (f.get("targs") or ["?"])[0][-50:]
        if bad:
            chk.violation("C06.state", "on_group:restores-block-length", where(f),
                          "%s returns with group_block_length = %s instead of the value it had on entry: the entries of the "
                          "enclosing group that follow a nested group are charged the nested group's blockLength"
                          % (f["qn"][:140], sorted(set(bad))[:2]))
        else:
            chk.ok("C06.state", key, {"paths": len(s.live)})
    chk.floor("on_group instantiations with decided post-state", decided, 5)
    # ---- C (who writes the field)
    writers, callers = set(), set()
    for fn in lib.facts["functions"]:
        if fn.get("cls") != cls and not (fn.get("qn") or "").startswith(cls + "::"):
            continue
        if fn.get("body") is None:
            continue
        nm = fn["name"]
        for x in walk(fn["body"]):
            if x.get("k") in ("BinaryOperator", "CompoundAssignOperator") and x.get("op", "").endswith("=") and x.get("op") not in ("==", "!=", "<=", ">="):
                l = x.get("lhs") or {}
                if l.get("k") == "MemberExpr" and l.get("name") == "group_block_length":
                    writers.add(nm)
            if x.get("k") == "UnaryOperator" and x.get("op") in ("++", "--"):
                l = x.get("sub") or {}
                if l.get("k") == "MemberExpr" and l.get("name") == "group_block_length":
                    writers.add(nm)
            if (x.get("callee") or {}).get("name") == "set_group_block_length":
                callers.add(nm)
    if writers - {"set_group_block_length", "size_bytes_checked_visitor"} or callers - {"on_group"}:
        chk.violation("C06.state", "block-length-writers", where(ogs[0]),
                      "group_block_length is written by %s and set_group_block_length is called by %s; expected only "
                      "set_group_block_length / on_group" % (sorted(writers), sorted(callers)))
    elif not writers or not callers:
        chk.broke("C06.state: no writer of group_block_length found (renamed?)")
    else:
        chk.ok("C06.state", "block-length-writers", {"writers": sorted(writers), "callers": sorted(callers)})
    # set_group_block_length row
    for f in lib.fns(cls, "set_group_block_length")[:1]:
        s = lib.summary(f)
        p = s.live[0]
        th = p.post.get("this")
        g = th.fields.get("group_block_length") if isinstance(th, Obj) else None
        if len(s.live) != 1 or not isinstance(g, Lin) or g != sym("block_length") or not isinstance(p.ret, Lin) or p.ret != pre:
            chk.violation("C06.row", "set_group_block_length", where(f), "set_group_block_length must store its argument and return the previous value; got %s / %s"
                          % (show(g) if isinstance(g, Lin) else g, show(p.ret) if isinstance(p.ret, Lin) else p.ret))
        else:
            chk.ok("C06.row", "set_group_block_length", {})


# ---- structural rows of the visitor protocol (documented in doc/ and the class comments: a callback returns true to
# stop the traversal; an entity's own bytes are validated before its children are visited; the result is
# {valid, n - remaining}).  Texts are in gguard's normal form (const locals inlined, comparisons oriented).
def _V(x):
    return "validate_and_subtract(%s)" % x


SHAPES = {
    "on_message": {
        "returns": [],
        "calls": [("validate_and_subtract", _V("size_bytes(get_header(m))"), []),
                  ("validate_and_subtract", _V("*get_header(m).blockLength()"), [_V("size_bytes(get_header(m))")]),
                  ("visit_children", "visit_children(m, c, *this)", [_V("*get_header(m).blockLength()"), _V("size_bytes(get_header(m))")])]},
    "on_group": {
        "returns": [("!is_valid()", [_V("size_bytes(get_header(g))")]), ("1", ["!" + _V("size_bytes(get_header(g))")])],
        "calls": [("validate_and_subtract", _V("size_bytes(get_header(g))"), []),
                  ("set_group_block_length", "set_group_block_length(*get_header(g).blockLength())", [_V("size_bytes(get_header(g))")]),
                  ("visit_children", "visit_children(g, c, *this)", [_V("size_bytes(get_header(g))")]),
                  ("set_group_block_length", "set_group_block_length(set_group_block_length(*get_header(g).blockLength()))", [_V("size_bytes(get_header(g))")])]},
    "on_entry": {
        "returns": [("!visit_children(e, c, *this).is_valid()", [_V("group_block_length")]), ("1", ["!" + _V("group_block_length")])],
        "calls": [("validate_and_subtract", _V("group_block_length"), []),
                  ("visit_children", "visit_children(e, c, *this)", [_V("group_block_length")])]},
    "on_data": {
        "returns": [("!" + _V("size_bytes(d)"), [])],
        "calls": [("validate_and_subtract", _V("size_bytes(d)"), [])]},
    "on_field": {"returns": [("0", [])], "calls": []},
    "size_bytes_checked": {
        "returns": [("{0, 0}", ["!visitor.is_valid()", "addressof(view)", "get_header_size(view) <= size"]),
                    ("{0, 0}", ["(!addressof(view) || size < get_header_size(view))"]),
                    ("{1, (size - visitor.get_size())}", ["addressof(view)", "get_header_size(view) <= size", "visitor.is_valid()"])],
        "calls": [("visit", "visit(view, c, visitor)", ["addressof(view)", "get_header_size(view) <= size"])]},
}
SHAPE_CALLS = ("visit_children", "validate_and_subtract", "set_group_block_length", "visit")


def shape_of(fn):
    import gen
    import gguard
    par = gen.parents(fn)
    calls = []
    for n in walk(fn["body"]):
        c = (n.get("callee") or {}).get("name")
        if c in SHAPE_CALLS:
            calls.append((c, gguard.opt_norm(gen.expr_text(n, 0, fn))[:160], tuple(gguard.guard_of(fn, n, par))))
    return gguard.returns_of(fn), calls


def check_shapes(chk, lib):
    import gguard
    cls = "sbepp::detail::size_bytes_checked_visitor"
    n = 0
    for name, exp in SHAPES.items():
        fns = lib.fns(cls, name) if name != "size_bytes_checked" else [f for f in lib.by_name.get(("", "size_bytes_checked"), [])
                                                                        if (f.get("base") or "") == "sbepp::size_bytes_checked"]
        if not fns:
            chk.broke("C06.shape: %s not found" % name)
            continue
        want_r = sorted((e, tuple(g)) for e, g in exp["returns"])
        want_c = [(c, t, tuple(g)) for c, t, g in exp["calls"]]
        known = set()
        for e, g in want_r:
            known |= gguard.idents(e) | gguard.idents(" ".join(g))
        for c, t, g in want_c:
            known |= gguard.idents(t) | gguard.idents(" ".join(g))
        seen = set()
        for f in fns:
            got_r, got_c = shape_of(f)
            sig = (tuple(got_r), tuple(got_c))
            if sig in seen:
                continue
            seen.add(sig)
            n += 1
            if got_r == want_r and got_c == want_c:
                chk.ok("C06.shape", name, {"exits": len(got_r), "calls": [c for c, _, _ in got_c]})
                continue
            used = set()
            for e, g in got_r:
                used |= gguard.idents(e) | gguard.idents(" ".join(g))
            for c, t, g in got_c:
                used |= gguard.idents(t) | gguard.idents(" ".join(g))
            unknown = used - known - set(p["name"] for p in f.get("params") or []) - {"this", "operator", "bool"}
            text = ("%s: exits %s / calls %s; the visitor protocol is exits %s / calls %s"
                    % (name, [(e, list(g)) for e, g in got_r], [(t, list(g)) for _, t, g in got_c],
                       [(e, list(g)) for e, g in want_r], [(t, list(g)) for _, t, g in want_c]))
            if unknown:
                chk.broke("C06.shape: %s uses identifiers the row does not know %s: %s" % (name, sorted(unknown)[:6], text[:500]))
            else:
                chk.violation("C06.shape", name, where(f), text[:900])
    chk.floor("C06.shape rows", n, 6)

"""C06: size_bytes_checked on untrusted buffers - read-before-validate rule.

In the configuration without assertions (the one an untrusted-input path runs
in) every READ reachable from size_bytes_checked(view, n) must be preceded, on
its path, by branch facts `K <= n` (successful validate_and_subtract calls and
the initial header test; K = bytes accounted so far) with
read_end - view.begin <= K implied.  Exactness: on every path that returns
valid the reported size equals the accounted total.  Bounded work: every loop
iteration must subtract a positive amount or be bounded by a constant."""
from common import *
import rint
from symex import *
from libsum import *


import re


def validated_bound(path, idx, A, size_sym):
    """all K with fact K - size <= 0 before event idx"""
    out = []
    for op, f in facts_before(path, idx):
        if op not in ("<=", "<"):
            continue
        d = dict(f.terms)
        if d.get(size_sym) == -1:
            K = f + Lin.atom(size_sym)
            out.append(K if op == "<=" else K + 1)
    return out


def loop_frame(addr):
    """a read inside a generic loop iteration: (loop tag, cursor symbol at iteration start)"""
    for a in lin(addr).atoms():
        if a[0] == "sym":
            m = re.search(r"@(L\d+)\.k\.", a[1])
            if m and a[1].endswith(".ptr"):
                return m.group(1), a
    return None, None


def loop_size_sym(path, idx, tag):
    for op, f in facts_before(path, idx):
        for a, c in f.terms:
            if a[0] == "sym" and ("@%s.k." % tag) in a[1] and a[1].endswith("size") and c == -1:
                return a
    return None


def site_of(fnames):
    lib = [x for x in fnames if x.startswith("sbepp::") and "get_primitive" not in x]
    return "<-".join(reversed(lib[-2:])) if lib else (fnames[-1] if fnames else "?")


def check(chk, lib, max_fns=None, max_paths=400):
    n_fn = n_reads = 0
    undecided = [0]
    for f in lib.by_name.get(("", "size_bytes_checked"), []):
        if (f.get("base") or "") != "sbepp::size_bytes_checked":
            continue
        if max_fns and n_fn >= max_fns:
            break
        view_t = rint.clean(f["params"][0]["t"])
        try:
            s = lib.summary(f, max_paths=max_paths)
        except PathLimit:
            chk.notes.append("size_bytes_checked<%s>: path/step budget exceeded, not analysed" % view_t[-60:])
            continue
        except AnalysisBroken as e:
            chk.notes.append("size_bytes_checked<%s>: %s" % (view_t[-60:], str(e)[:100]))
            continue
        n_fn += 1
        A = sym("view.begin")
        size_sym = ("sym", "size")
        ent = view_t.split("::")[-1]
        for p in s.paths:
            facts_all = None
            for i, e in enumerate(p.events):
                if e[0] != "read" or not isinstance(e[1], Lin):
                    continue
                n_reads += 1
                tag, psym = loop_frame(e[1])
                facts = facts_before(p, i)
                in_loop = bool(e[-1]) and isinstance(e[-1], tuple) and e[-1] and isinstance(e[-1][0], str) and e[-1][0].startswith("L")
                havocked = any(a[0] == "sym" and "@L" in a[1] for a in (lin(e[1]) + lin(e[2])).atoms()) or \
                    any(a[0] == "wire" and any(b[0] == "sym" and "@L" in b[1] for b in a[1].atoms()) for a in (lin(e[1]) + lin(e[2])).atoms())
                if tag or in_loop or havocked:
                    # inside a generic loop iteration the relation between the cursor and the
                    # accounted total needs a loop invariant this domain does not infer: undecided
                    undecided[0] += 1
                    continue
                if tag:
                    ssym = loop_size_sym(p, i, tag)
                    top = lin(e[1]) + lin(e[2]) - Lin.atom(psym)
                    Ks = validated_bound(p, i, Lin.atom(psym), ssym) if ssym else []
                    # only what was validated inside this iteration counts
                else:
                    top = lin(e[1]) + lin(e[2]) - A
                    Ks = validated_bound(p, i, A, size_sym)
                ok_ = any(nonpos(top - K, facts) for K in Ks)
                fnames = p.where[i] if i < len(p.where) else ()
                site = site_of(fnames)
                key = "read-before-validate|%s%s" % (site, "|in-entry-loop" if tag else "")
                if ok_:
                    chk.ok("C06.rbv", key + "|" + show(top)[:60], {"view": ent, "read_end": show(top), "validated": [show(k) for k in Ks][-2:]})
                else:
                    chk.violation("C06.rbv", key, where(f),
                                  "size_bytes_checked<%s>: %s reads bytes up to view+%s before %s bytes have been validated against n "
                                  "(validated so far: %s)" % (ent, site, show(top), show(top), [show(k) for k in Ks][-2:] or "nothing"))
            # exactness on valid paths
            rv = p.ret
            if any(e[0] == "loop-begin" for e in p.events):
                continue
            if isinstance(rv, Obj) and isinstance(rv.fields.get("valid"), Lin) and rv.fields["valid"].is_const() and rv.fields["valid"].k == 1:
                Ks = validated_bound(p, len(p.events), A, size_sym)
                sz = rv.fields.get("size")
                if not any(isinstance(sz, Lin) and sz == K for K in Ks):
                    chk.violation("C06.exact", "size-exact|%s" % ent, where(f),
                                  "size_bytes_checked<%s>: a valid=true path reports size %s, accounted totals are %s" % (ent, show(sz), [show(k) for k in Ks][-2:]))
                else:
                    chk.ok("C06.exact", "size-exact|%s|%s" % (ent, show(sz)[:50]), {"size": show(sz)})
    chk.extra["reads_inside_entry_loops_undecided"] = chk.extra.get("reads_inside_entry_loops_undecided", 0) + undecided[0]
    return n_fn, n_reads


def check_validate_and_subtract(chk, lib):
    """row: validate_and_subtract(n): if size < n -> valid = false, size unchanged; else size -= n; returns valid"""
    fs = lib.fns("sbepp::detail::size_bytes_checked_visitor", "validate_and_subtract")
    if not fs:
        chk.broke("validate_and_subtract not found")
        return
    f = fs[0]
    s = lib.summary(f)
    size0, n, valid0 = sym("this.size"), sym("n"), sym("this.valid")
    errs = []
    seen = set()
    for p in s.live:
        dec = [(c, t) for c, t in p.pc]
        want_c = cmp_term("<", size0, n)
        if len(dec) != 1 or lin(dec[0][0]) != want_c:
            errs.append("branches on %s, expected size < n" % [show(c) for c, t in dec])
            continue
        th = p.post["this"]
        small = dec[0][1]
        seen.add(small)
        if small:
            if th.get("valid") != Lin.const(0) or lin(th.get("size")) != size0 or lin(p.ret) != Lin.const(0):
                errs.append("size < n: valid=%s size=%s returns %s (expected false, unchanged, false)" % (show(th.get("valid")), show(th.get("size")), show(p.ret)))
        else:
            if lin(th.get("size")) != size0 - n or lin(th.get("valid")) != valid0 or lin(p.ret) != valid0:
                errs.append("size >= n: size=%s valid=%s returns %s (expected size-n, unchanged, valid)" % (show(th.get("size")), show(th.get("valid")), show(p.ret)))
    if seen != {True, False}:
        errs.append("expected both outcomes of size < n")
    if errs:
        chk.violation("C06.row", "validate_and_subtract", where(f), "validate_and_subtract: " + "; ".join(errs))
    else:
        chk.ok("C06.row", "validate_and_subtract", {"paths": len(s.live)})
    # on_data / on_entry / on_message stop conditions: structural rows
    for nm, must in (("on_data", ["validate_and_subtract", "size_bytes"]), ("on_entry", ["validate_and_subtract", "visit_children"]),
                     ("on_group", ["validate_and_subtract", "visit_children", "set_group_block_length", "get_header"]),
                     ("on_message", ["validate_and_subtract", "visit_children", "get_header"])):
        fns = lib.fns("sbepp::detail::size_bytes_checked_visitor", nm)
        if not fns:
            continue
        f = fns[0]
        order = [(x.get("callee") or {}).get("name") for x in walk(f["body"]) if x.get("callee")]
        errs = []
        for m in must:
            if m not in order:
                errs.append("does not call %s" % m)
        if "visit_children" in order and "validate_and_subtract" in order and order.index("validate_and_subtract") > order.index("visit_children"):
            errs.append("visits children before validating its own size")
        if errs:
            chk.violation("C06.row", nm, where(f), "%s: %s" % (nm, "; ".join(errs)))
        else:
            chk.ok("C06.row", nm, {"calls": [o for o in order if o in must]})


def check_loop_progress(chk, lib):
    """bounded work (structural necessary condition): the per-entry amount the visitor subtracts must be
    positive, or the entry count must be validated against the remaining size before the loop"""
    fs = lib.fns("sbepp::detail::size_bytes_checked_visitor", "on_group") + lib.fns("sbepp::detail::size_bytes_checked_visitor", "on_entry")
    if not fs:
        chk.broke("on_group/on_entry of size_bytes_checked_visitor not found")
        return
    guards = []
    for f in fs[:6]:
        for x in walk(f["body"]):
            if x.get("k") == "BinaryOperator" and x.get("op") in ("<", "<=", ">", ">=", "==", "!=", "*"):
                names = set()
                for y in walk(x):
                    if y.get("k") in ("MemberExpr", "DeclRefExpr"):
                        names.add(y.get("name"))
                    c = y.get("callee") or {}
                    if c.get("name"):
                        names.add(c["name"])
                if names & {"group_block_length", "block_length", "blockLength", "numInGroup", "size"} and names & {"numInGroup", "group_block_length", "blockLength"}:
                    guards.append(sorted(names))
    key = "entry-loop-progress"
    if guards:
        chk.ok("C06.work", key, {"guards": guards[:3]})
    else:
        chk.violation("C06.work", key, where(fs[0]),
                      "on_entry subtracts the wire blockLength per entry and neither on_group nor on_entry bounds numInGroup or "
                      "requires a positive amount: with blockLength = 0 and entries without variable-length members an iteration "
                      "consumes nothing, so the work is bounded by numInGroup (up to 2^64-1), not by n")

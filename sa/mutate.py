#!/usr/bin/env python3
"""Mutation campaign over the library / sbeppc sources (development aid, not a registered check).

For every selected function (by class template / function name, ranges taken from the extractor's facts) it derives
single-token mutants (relational and arithmetic operator swaps, && / ||, deleted SBEPP_SIZE_CHECK / SBEPP_ASSERT
statements), applies each one in a scratch git worktree of /repo under /tmp, runs the quick checks mapped to the
region with SBEPP_REPO pointing at the worktree, and records: killed (some check exits 1), invalid (every check
exits 2: the mutant does not compile), survived (all exit 0).  Survivors are triaged by hand: equivalent mutant,
or a gap to close.  Nothing is ever applied to /repo itself.

usage: mutate.py plan  <region> ...          list mutants
       mutate.py run   <out.json> [-j N] [--max M] [--seed S] <region> ...
regions: see REGIONS below.
"""
import json
import os
import random
import re
import subprocess
import sys
import threading
import time

sys.path.insert(0, os.path.dirname(os.path.abspath(__file__)))
from common import *  # noqa

LIB = "sbepp/src/sbepp/sbepp.hpp"
SBEPPC = "sbeppc/src/sbepp/sbeppc/"

# region -> (file, selector over function facts, properties to run)
REGIONS = {
    "optional": (LIB, lambda f: (f.get("cls_tpl") or "") in ("sbepp::detail::optional_base", "sbepp::detail::required_base")
                 or ("optional_base" in (f.get("params") or [{}])[0].get("t", "") if f.get("params") else False), ["C16"]),
    "bitset": (LIB, lambda f: (f.get("cls_tpl") or "") == "sbepp::detail::bitset_base"
               or ("bitset_base" in (f.get("params") or [{}])[0].get("t", "") if f.get("params") else False), ["C15"]),
    "static_array": (LIB, lambda f: (f.get("cls_tpl") or "") == "sbepp::detail::static_array_ref", ["C14", "C10"]),
    "dynamic_array": (LIB, lambda f: (f.get("cls_tpl") or "") == "sbepp::detail::dynamic_array_ref", ["C13", "C10"]),
    "cursor": (LIB, lambda f: (f.get("cls_tpl") or "") in ("sbepp::cursor", "sbepp::detail::init_cursor_wrapper",
                                                         "sbepp::detail::dont_move_cursor_wrapper", "sbepp::detail::init_dont_move_cursor_wrapper",
                                                         "sbepp::detail::skip_cursor_wrapper"), ["C04", "C03"]),
    "groups": (LIB, lambda f: (f.get("cls_tpl") or "") in ("sbepp::detail::flat_group_base", "sbepp::detail::nested_group_base",
                                                         "sbepp::detail::random_access_iterator", "sbepp::detail::forward_iterator",
                                                         "sbepp::detail::cursor_iterator", "sbepp::detail::cursor_range",
                                                         "sbepp::detail::entry_base", "sbepp::detail::message_base",
                                                         "sbepp::detail::composite_base", "sbepp::detail::byte_range"), ["C12", "C05", "C03", "C10"]),
    "codec": (LIB, lambda f: (f.get("base") or "").split("<")[0] in ("sbepp::detail::get_primitive", "sbepp::detail::set_primitive",
                                                                     "sbepp::detail::get_value", "sbepp::detail::set_value",
                                                                     "sbepp::detail::byteswap", "sbepp::detail::get_static_field_view",
                                                                     "sbepp::detail::get_dynamic_field_view",
                                                                     "sbepp::detail::get_first_dynamic_field_view",
                                                                     "sbepp::detail::get_group_view", "sbepp::detail::get_data_view"), ["C01", "C02", "C03", "C10"]),
    "checked": (LIB, lambda f: (f.get("cls") or "") == "sbepp::detail::size_bytes_checked_visitor"
                or (f.get("base") or "").startswith("sbepp::size_bytes_checked"), ["C06"]),
    "fillers": (LIB, lambda f: (f.get("base") or "").split("<")[0] in ("sbepp::fill_message_header", "sbepp::fill_group_header"), ["C17"]),
    "validator": (SBEPPC + "sbe_schema_validator.hpp", None, ["C08", "C09"]),
    "cppvalidator": (SBEPPC + "sbe_schema_cpp_validator.hpp", None, ["C08", "C07"]),
    "parser": (SBEPPC + "schema_parser.hpp", None, ["C08", "C09"]),
    # generators: cheap, discriminating checks first (a killed mutant stops the row)
    "messages_compiler": (SBEPPC + "messages_compiler.hpp", None, ["C07", "C04", "C01", "C19", "C17", "C05", "C03", "C11"]),
    "normal_accessors": (SBEPPC + "normal_accessors.hpp", None, ["C07", "C01", "C02", "C11"]),
    "types_compiler": (SBEPPC + "types_compiler.hpp", None, ["C07", "C16", "C18", "C19", "C01", "C15"]),
    "traits_generator": (SBEPPC + "traits_generator.hpp", None, ["C07", "C18", "C05"]),
    "tags_generator": (SBEPPC + "tags_generator.hpp", None, ["C07", "C18"]),
    "names_generator": (SBEPPC + "names_generator.hpp", None, ["C07", "C18"]),
    "utils": (SBEPPC + "utils.hpp", None, ["C07", "C08", "C16", "C01", "C18"]),
    "fs": (SBEPPC + "fs_provider.hpp", None, ["C20"]),
    "main": (SBEPPC + "main.cpp", None, ["C20", "C09", "C08"]),
}

SWAPS = [(" <= ", " < "), (" < ", " <= "), (" >= ", " > "), (" > ", " >= "), (" == ", " != "), (" != ", " == "),
         (" + ", " - "), (" - ", " + "), (" && ", " || "), (" || ", " && "), (" += ", " -= "), (" -= ", " += "),
         ("++;", "--;"), (" * ", " + "), (" | ", " & "), (" & ", " | "), (" << ", " >> "), ("(!", "("), ("return !", "return "),
         (" - 1", " - 0"), (" + 1", " + 2"),
         # tokens of the code templates inside the generators
         ("c.template get_value", "c.template get_last_value"), ("c.template get_last_value", "c.template get_value"),
         ("c.template set_value", "c.template set_last_value"), ("c.template set_last_value", "c.template set_value"),
         ("get_static_field_view", "get_last_static_field_view"), ("get_last_static_field_view", "get_static_field_view"),
         ("get_first_group_view", "get_group_view"), ("get_first_data_view", "get_data_view"),
         ("get_first_dynamic_field_view", "get_dynamic_field_view"),
         ("enable_if_cursor_writeable_t", "enable_if_cursor_compatible_t"), ("enable_if_writable_t<Byte", "enable_if_convertible_t<Byte, Byte"),
         ("{offset}", "{absolute_offset}"), ("{absolute_offset}", "{offset}"), ("required_base<", "optional_base<"), ("optional_base<", "required_base<")]


def function_ranges(region):
    file_rel, sel, props = REGIONS[region]
    rngs = set()
    if sel is None:
        import gen
        f = gen.facts()
        for fn in gen.sbeppc_functions(f):
            if rel(fn["file"]) == file_rel and fn.get("endline") and not fn.get("lambda"):
                rngs.add((fn["line"], fn["endline"]))
    else:
        from props._lib import lib_for
        for name in ("vlayout", "vprims_le", "vheaders"):
            lib = lib_for(name, "c++17")
            for fn in lib.facts["functions"]:
                if fn.get("body") is None or not fn["file"].endswith("sbepp.hpp") or not fn.get("endline"):
                    continue
                try:
                    if sel(fn):
                        rngs.add((fn["line"], fn["endline"]))
                except Exception:
                    pass
    return file_rel, sorted(rngs), props


def mutants_of(region):
    file_rel, rngs, props = function_ranges(region)
    src = open(os.path.join(REPO, file_rel)).read().split("\n")
    out = []
    seen = set()
    for a, b in rngs:
        i = a
        while i <= b:
            line = src[i - 1]
            st = line.strip()
            if st.startswith("//") or st.startswith("*") or st.startswith("/*") or st.startswith("#"):
                i += 1
                continue
            code = line.split("//")[0]
            # statement deletion: a whole SBEPP_SIZE_CHECK(...) / SBEPP_ASSERT(...) statement
            if re.match(r"\s*SBEPP_(SIZE_CHECK|ASSERT)\(", code):
                j = i
                while j <= b and ";" not in src[j - 1]:
                    j += 1
                key = (i, "del")
                if key not in seen:
                    seen.add(key)
                    out.append({"region": region, "file": file_rel, "line": i, "to_line": j, "kind": "delete-check",
                                "old": "\n".join(src[i - 1:j]), "new": "\n".join(["" for _ in range(i, j + 1)]), "props": props})
                i = j + 1
                continue
            if "template<" in code or code.strip().startswith("template"):
                i += 1
                continue
            for old, new in SWAPS:
                pos = 0
                while True:
                    k = code.find(old, pos)
                    if k < 0:
                        break
                    pos = k + len(old)
                    # not inside a string literal
                    if code[:k].count('"') % 2 == 1:
                        continue
                    key = (i, k, new)
                    if key in seen:
                        continue
                    seen.add(key)
                    mut = line[:k] + new + line[k + len(old):]
                    out.append({"region": region, "file": file_rel, "line": i, "to_line": i, "kind": "%s->%s" % (old.strip(), new.strip()),
                                "old": line, "new": mut, "props": props})
            i += 1
    return out


def run_mutant(m, wt, timeout=1500):
    p = os.path.join(wt, m["file"])
    src = open(p).read().split("\n")
    new_lines = m["new"].split("\n")
    src[m["line"] - 1:m["to_line"]] = new_lines
    open(p, "w").write("\n".join(src))
    res = {}
    try:
        for prop in m["props"]:
            env = dict(os.environ, SBEPP_REPO=wt)
            t0 = time.time()
            try:
                r = subprocess.run([sys.executable, os.path.join(VERIF, "sa", "run.py"), prop, "--tier", "quick"], capture_output=True, text=True,
                                   cwd=VERIF, env=env, timeout=timeout)
                rules = sorted(set(x.group(1) for x in re.finditer(r"^\S+: ([A-Za-z0-9_.\-]+): \[", r.stdout, re.M)))
                res[prop] = {"exit": r.returncode, "rules": rules[:6], "t": round(time.time() - t0, 1),
                             "broken": [l[:200] for l in r.stdout.splitlines() if l.startswith("ANALYSIS-BROKEN")][:2]}
            except subprocess.TimeoutExpired:
                res[prop] = {"exit": -1, "rules": [], "t": timeout}
            if res[prop]["exit"] == 1:
                break       # killed
    finally:
        subprocess.check_call(["git", "-C", wt, "checkout", "--", "."])
    return res


def verdict(res):
    ex = [v["exit"] for v in res.values()]
    if 1 in ex:
        return "killed"
    if ex and all(e == 2 for e in ex):
        return "invalid"
    if 2 in ex or -1 in ex:
        return "partly-broken"
    return "survived"


def main():
    mode = sys.argv[1]
    args = sys.argv[2:]
    if mode == "plan":
        for r in args:
            ms = mutants_of(r)
            print(r, len(ms))
            for m in ms[:400]:
                print("  %s:%d %s   %s" % (m["file"].split("/")[-1], m["line"], m["kind"], m["old"].strip()[:90]))
        return 0
    out = args[0]
    args = args[1:]
    j, mx, seed = 4, None, 1
    regs = []
    i = 0
    while i < len(args):
        if args[i] == "-j":
            j = int(args[i + 1]); i += 2
        elif args[i] == "--max":
            mx = int(args[i + 1]); i += 2
        elif args[i] == "--seed":
            seed = int(args[i + 1]); i += 2
        else:
            regs.append(args[i]); i += 1
    ms = []
    for r in regs:
        x = mutants_of(r)
        random.Random(seed).shuffle(x)
        ms += x[:mx] if mx else x
    print("mutants:", len(ms), flush=True)
    results = []
    lock = threading.Lock()
    queue = list(ms)

    def worker(k):
        wt = "/tmp/mut_%d_%d" % (os.getpid(), k)
        subprocess.call(["git", "-C", "/repo", "worktree", "remove", "--force", wt], stderr=subprocess.DEVNULL)
        subprocess.check_call(["git", "-C", "/repo", "worktree", "add", "-q", "--detach", wt, "HEAD"])
        try:
            while True:
                with lock:
                    if not queue:
                        return
                    m = queue.pop(0)
                res = run_mutant(m, wt)
                v = verdict(res)
                with lock:
                    results.append(dict(m, result=res, verdict=v))
                    print("%-9s %s:%d %-8s %s | %s" % (v, m["file"].split("/")[-1], m["line"], m["kind"], m["old"].strip()[:70],
                                                      " ".join("%s=%s" % (p, x["exit"]) for p, x in res.items())), flush=True)
                    json.dump(results, open(out, "w"), indent=1)
        finally:
            subprocess.call(["git", "-C", "/repo", "worktree", "remove", "--force", wt])
    ths = [threading.Thread(target=worker, args=(k,)) for k in range(j)]
    for t in ths:
        t.start()
    for t in ths:
        t.join()
    subprocess.call(["git", "-C", VERIF, "checkout", "--", "evidence"])
    c = {}
    for r in results:
        c[r["verdict"]] = c.get(r["verdict"], 0) + 1
    print("summary:", c)
    return 0


if __name__ == "__main__":
    sys.exit(main())

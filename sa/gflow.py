"""G-FLOW: def-use rules on the arguments of the generator's format templates."""
import re

from common import *
import gen


def check_block_length_flow(chk):
    """C03 (c): the compiled block length (context field actual_block_length)
    may be *read* only to fill headers and block_length() traits."""
    f = gen.facts()
    calls = gen.format_calls(f)
    node_to_call = {}
    for fc in calls:
        for nm, e in fc.named.items():
            for x in walk(e):
                node_to_call[id(x)] = (fc, nm)
        for i, e in enumerate(fc.positional):
            for x in walk(e):
                node_to_call[id(x)] = (fc, i)
    n_reads = n_writes = 0
    for fn in gen.sbeppc_functions(f):
        par = None
        for n in walk(fn["body"]):
            if n.get("k") == "MemberExpr" and n.get("name") == "actual_block_length":
                par = par or gen.parents(fn)
                p, role = par.get(id(n), (None, None))
                # direct LHS of an assignment = the validator storing the value
                if p is not None and p.get("k") == "BinaryOperator" and p.get("op") == "=" and role == "lhs":
                    n_writes += 1
                    key = "abl-write:%s" % gen.short(fn)
                    if gen.short(fn) not in ("sbe_schema_validator::validate_block_length",):
                        chk.violation("G-FLOW.c", key, "%s:%s" % (rel(fn["file"]), n.get("l")),
                                      "actual_block_length is assigned outside validate_block_length (%s)" % gen.short(fn))
                    else:
                        chk.ok("G-FLOW.c", key + ":%s" % n.get("l"), {"where": "%s:%s" % (rel(fn["file"]), n.get("l"))})
                    continue
                n_reads += 1
                where = "%s:%s" % (rel(fn["file"]), n.get("l"))
                hit = node_to_call.get(id(n))
                key = "abl-read:%s" % gen.short(fn)
                if hit is None and gen.short(fn).startswith("sbe_schema_validator::"):
                    # the validator, which computes the value, may test it (range of the header's blockLength type);
                    # the rule is about what the *generators* emit
                    chk.ok("G-FLOW.c", key + ":%s" % n.get("l"), {"where": where, "reader": "validator"})
                    continue
                if hit is None:
                    chk.violation("G-FLOW.c", key, where,
                                  "actual_block_length is read in %s outside a format argument: the compiled block length "
                                  "must only reach header fillers and block_length() traits" % gen.short(fn))
                    continue
                fc, nm = hit
                tpl = fc.template or ""
                ctxs = placeholder_contexts(tpl, nm)
                bad = [c for c in ctxs if not (re.search(r"header\.blockLength\(\{\s*$", c) or
                                               re.search(r"block_length\(\)\s*noexcept\s*\{\s*return \{?\s*$", c))]
                if not ctxs or bad:
                    chk.violation("G-FLOW.c", key, where,
                                  "actual_block_length flows into placeholder {%s} of a template in %s whose context is "
                                  "neither `header.blockLength({..})` nor `block_length() { return ..; }`: %r"
                                  % (nm, gen.short(fn), (bad or ["<no such placeholder>"])[0][-80:]))
                else:
                    chk.ok("G-FLOW.c", key + ":%s" % n.get("l"), {"where": where, "placeholder": nm, "contexts": [c[-60:] for c in ctxs]})
    chk.floor("G-FLOW.c reads of actual_block_length", n_reads, 4)
    chk.floor("G-FLOW.c writes of actual_block_length", n_writes, 2)


def placeholder_contexts(tpl, name):
    """text preceding each occurrence of placeholder {name} (escaped braces resolved)"""
    out = []
    fields = gen.placeholders(tpl)
    txt = gen.render_literal_text(tpl)
    for i, (nm, s, e) in enumerate(fields):
        if nm == name or (isinstance(name, int) and (nm == "" or nm == str(name))):
            marker = "\x00%d\x00" % i
            pos = txt.find(marker)
            before = re.sub("\x00\\d+\x00", "<arg>", txt[:pos])
            out.append(before[-200:])
    return out


# ----------------------------------------------------------- G-FLOW a (C07)
FREE_TEXT = {"description", "semantic_type", "semantic_version", "character_encoding", "constant_value", "package"}
# enum validValue text is free text only for char enums (one character, pasted between single quotes)


def literal_context(before):
    """'string' if the placeholder sits inside a "..." literal of the emitted C++,
    'char' inside '...', else 'code' (decided on the current line of template text)"""
    line = before.split("\n")[-1]
    # strip escaped quotes
    line = line.replace('\\"', "").replace("\\'", "")
    if line.count('"') % 2 == 1:
        return "string"
    if line.count("'") % 2 == 1:
        return "char"
    return "code"


def check_free_text(chk):
    """free-text schema strings must not reach a C++ string/char literal of a
    template unescaped (accepted schema -> header that does not compile)"""
    f = gen.facts()
    esc = [fn for fn in gen.sbeppc_functions(f) if re.search(r"escape", fn["name"])]
    n = 0
    for fc in gen.format_calls(f):
        if fc.kind != "format" or not fc.template:
            continue
        fields = gen.placeholders(fc.template)
        txt = gen.render_literal_text(fc.template)
        for i, (nm, s, e) in enumerate(fields):
            marker = "\x00%d\x00" % i
            pos = txt.find(marker)
            before = re.sub("\x00\\d+\x00", "X", txt[:pos])
            ctx = literal_context(before)
            if ctx == "code":
                continue
            arg = fc.named.get(nm)
            if arg is None:
                pi = int(nm) if nm.isdigit() else [j for j, x in enumerate([y for y in fields if not y[0] or y[0].isdigit()]) if x[1] == s]
                if isinstance(pi, list):
                    pi = pi[0] if pi else None
                if pi is None or pi >= len(fc.positional):
                    continue
                arg = fc.positional[pi]
            n += 1
            reads = set(gen.member_reads(arg))
            escaped = any((x.get("callee") or {}).get("name", "").find("escape") >= 0 for x in walk(arg))
            hot = sorted(reads & FREE_TEXT)
            key = "free-text:%s:{%s}" % (gen.short(fc.fn), nm)
            if hot and not escaped:
                chk.violation("G-FLOW.a", key, fc.where,
                              "template in %s pastes schema free text (%s) into a C++ %s literal through {%s} without escaping: a "
                              "quote, backslash or newline in the XML attribute yields a header that does not compile"
                              % (gen.short(fc.fn), ", ".join(hot), ctx, nm))
            else:
                chk.ok("G-FLOW.a", key + "#%s" % fc.line, {"where": fc.where, "context": ctx, "sources": sorted(reads)[:6]}, nontrivial=True)
    chk.floor("G-FLOW.a literal-context placeholders", n, 30)
    check_escape_table(chk, esc)


# characters that cannot stand for themselves inside a C++ string/character literal under some supported standard
MUST_ESCAPE = {
    34: "`\"` ends a string literal",
    39: "`'` ends a character literal",
    92: "backslash starts an escape sequence",
    10: "a newline ends the line inside a literal",
    13: "a carriage return ends the line inside a literal",
    63: "`?`: C++11/14 replace trigraphs (`??/` is a backslash, `??'`, `??!` ...) before literals are formed",
}


def escape_arms(fn):
    """for a switch over the current character: per case value, what is wrong with its arm (None = fine).  The arm
    (statements up to the next break) must append, outside any condition, a string literal that starts with a backslash,
    and must nowhere append anything else (the raw character, a literal that begins with the character itself)"""
    out = {}
    for sw in [x for x in walk(fn["body"]) if x.get("k") == "SwitchStmt"]:
        body = sw.get("body") or {}
        stmts = body.get("c") or []
        i = 0
        while i < len(stmts):
            st = stmts[i]
            if st.get("k") != "CaseStmt":
                i += 1
                continue
            vals = []
            arm = []
            cur = st
            # `case a: case b: stmt` nests CaseStmt in `sub`
            while cur is not None and cur.get("k") == "CaseStmt":
                for y in walk(cur.get("lhs") or cur.get("value") or {}):
                    if "cv" in y:
                        try:
                            vals.append(int(y["cv"]))
                        except ValueError:
                            pass
                        break
                nxt = cur.get("sub")
                if nxt is None:
                    kids = [v for k, v in cur.items() if isinstance(v, dict) and k not in ("lhs", "value")]
                    nxt = kids[0] if kids else None
                cur = nxt
            if cur is not None:
                arm.append(cur)
            j = i + 1
            while j < len(stmts) and stmts[j].get("k") not in ("BreakStmt", "CaseStmt", "DefaultStmt", "ReturnStmt"):
                arm.append(stmts[j])
                j += 1
            appends = []       # (literal-or-None, conditional?)

            def scan(n, cond):
                if not isinstance(n, dict):
                    return
                k = n.get("k")
                if k in ("IfStmt", "ConditionalOperator", "SwitchStmt", "ForStmt", "WhileStmt"):
                    for kk, v in n.items():
                        if isinstance(v, dict):
                            scan(v, True)
                        elif isinstance(v, list):
                            for y in v:
                                scan(y, True)
                    return
                c = n.get("callee") or {}
                if k in ("CXXOperatorCallExpr", "CXXMemberCallExpr") and c.get("name") in ("operator+=", "append", "push_back"):
                    lit = None
                    for y in walk(n):
                        if "str" in y:
                            lit = y["str"]
                            break
                    appends.append((lit, cond))
                    return
                for kk, v in n.items():
                    if isinstance(v, dict):
                        scan(v, cond)
                    elif isinstance(v, list):
                        for y in v:
                            scan(y, cond)
            for a in arm:
                scan(a, False)
            problem = None
            if not any(lit is not None and lit.startswith("\\") and not cond for lit, cond in appends):
                problem = "its arm does not append an escape sequence on every path"
            bad = [lit for lit, cond in appends if lit is None or not lit.startswith("\\")]
            if bad:
                problem = "its arm appends %s, which puts the character itself into the literal on some path" % (
                    "the raw character" if bad[0] is None else repr(bad[0]))
            for v in vals:
                out[v] = problem
            i = j
    return out


def check_escape_table(chk, esc):
    """the escaping function every free-text placeholder goes through handles each character of MUST_ESCAPE"""
    fns = [fn for fn in esc if fn.get("body") is not None]
    if not fns:
        chk.broke("G-FLOW.a: no escape function found in sbeppc")
        return
    fn = fns[0]
    handled = set()
    for x in walk(fn["body"]):
        if x.get("k") == "CaseStmt":
            for y in walk(x.get("lhs") or x.get("value") or {}):
                if "cv" in y:
                    try:
                        handled.add(int(y["cv"]))
                    except ValueError:
                        pass
        if x.get("k") == "BinaryOperator" and x.get("op") == "==":
            for y in (x.get("lhs") or {}, x.get("rhs") or {}):
                if "cv" in y:
                    try:
                        handled.add(int(y["cv"]))
                    except ValueError:
                        pass
    if len(handled) < 3:
        chk.broke("G-FLOW.a: cannot read the character cases of %s (found %s)" % (fn["qn"], sorted(handled)))
        return
    arms = escape_arms(fn)
    for c, why in sorted(MUST_ESCAPE.items()):
        key = "escape-char:%d" % c
        if c in handled and c in arms and arms[c]:
            chk.violation("G-FLOW.a", key, "%s:%s" % (rel(fn["file"]), fn["line"]),
                          "%s has a case for character %d (%r) but %s: %s" % (fn["qn"], c, chr(c), arms[c], why))
        elif c in handled:
            chk.ok("G-FLOW.a", key, {"function": fn["qn"], "char": c, "arm": "appends an escape sequence on every path" if c in arms else "handled by a comparison"})
        else:
            chk.violation("G-FLOW.a", key, "%s:%s" % (rel(fn["file"]), fn["line"]),
                          "%s leaves character %d (%r) as it is: %s - schema free text containing it yields a header that "
                          "does not compile (or means something else)" % (fn["qn"], c, chr(c), why))



NUMERIC_EMITTERS = ("to_integer_literal", "numeric_literal_to_value")
NUMERIC_TEXT = {"constant_value", "min_value", "max_value", "null_value", "value"}
NUMERIC_WRAPPERS = ("to_integer_literal", "numeric_literal_to_value", "escape_literal", "make_char_constant", "make_string_constant",
                    "value_ref_to_enum_value", "get_min_value", "get_max_value", "get_null_value", "get_const_value", "get_const_impl")
NUMERIC_NORMALISERS = ("strip_leading_zeros", "to_integer_literal", "numeric_literal_to_value", "string_to_number")


def check_numeric_text(chk):
    """G-FLOW.d: numeric schema text becomes a C++ literal only through the emitters of utils.hpp, and an emitter never
    hands its text parameter back as it is: XML decimals may carry leading zeros, which C++ reads as octal (`010` is
    8, `09` does not compile).  Every use of the text parameter inside a returned expression must be an argument of a
    normaliser / parser or an operand of a comparison."""
    f = gen.facts()
    found = 0
    for fn in gen.sbeppc_functions(f):
        if fn["name"] not in NUMERIC_EMITTERS or not fn["file"].endswith("utils.hpp"):
            continue
        found += 1
        p0 = (fn.get("params") or [{}])[0].get("did")
        par = gen.parents(fn)
        # locals initialised from the parameter without normalisation are aliases of it
        raw = {p0}
        changed = True
        while changed:
            changed = False
            for x in walk(fn["body"]):
                if x.get("k") == "VarDecl" and x.get("did") not in raw and x.get("init") is not None:
                    if _raw_use(x["init"], raw, gen.parents({"body": x["init"]})):
                        raw.add(x["did"])
                        changed = True
        bad = []
        for n in walk(fn["body"]):
            if n.get("k") != "ReturnStmt" or n.get("sub") is None:
                continue
            if _raw_use(n["sub"], raw, par):
                bad.append(n.get("l"))
        key = "numeric-text:" + fn["name"]
        if bad:
            chk.violation("G-FLOW.d", key, "%s:%s" % (rel(fn["file"]), bad[0]),
                          "%s returns its text parameter unnormalised (line %s): a schema value with leading zeros (`010`) is "
                          "emitted as an octal C++ literal (8), `09` does not compile" % (fn["qn"], bad))
        else:
            chk.ok("G-FLOW.d", key, {"function": fn["qn"]}, nontrivial=True)
    if found < 2:
        chk.broke("G-FLOW.d: numeric emitters %s not found in utils.hpp" % (NUMERIC_EMITTERS,))
    # who may paste numeric schema text: only through an emitter / escaper
    n = 0
    for fc in gen.format_calls(f):
        if fc.kind != "format":
            continue
        for nm, arg in list(fc.named.items()) + [(str(i), a) for i, a in enumerate(fc.positional)]:
            reads = set(x.get("name") for x in walk(arg) if x.get("k") == "MemberExpr" and x.get("dk") == "Field"
                        and x.get("name") in NUMERIC_TEXT and "string" in (x.get("t") or ""))
            if not reads:
                continue
            n += 1
            wrapped = any((x.get("callee") or {}).get("name") in NUMERIC_WRAPPERS for x in walk(arg))
            key = "numeric-paste:%s:{%s}" % (gen.short(fc.fn), nm)
            if wrapped:
                chk.ok("G-FLOW.d", key + "#%s" % fc.line, {"where": fc.where, "sources": sorted(reads)})
            else:
                chk.violation("G-FLOW.d", key, fc.where,
                              "template in %s pastes schema value text (%s) through {%s} without going through "
                              "numeric_literal_to_value / to_integer_literal / an escaper" % (gen.short(fc.fn), ", ".join(sorted(reads)), nm))
    chk.extra["numeric_paste_sites"] = n


def _raw_use(expr, raw, par):
    """does expr use one of the raw variables outside a normaliser argument / comparison?"""
    for x in walk(expr):
        if x.get("k") != "DeclRefExpr" or x.get("did") not in raw:
            continue
        cur, ok_ = x, False
        while id(cur) in par:
            cur = par[id(cur)][0]
            c = (cur.get("callee") or {}).get("name")
            if c in NUMERIC_NORMALISERS:
                ok_ = True
                break
            if cur.get("k") in ("BinaryOperator", "CXXOperatorCallExpr") and cur.get("op") in ("==", "!=", "<", ">", "<=", ">="):
                ok_ = True
                break
            if cur.get("k") == "ArraySubscriptExpr" or (cur.get("k") == "CXXOperatorCallExpr" and cur.get("op") == "[]"):
                ok_ = True      # a single character
                break
            if c in ("empty", "size"):
                ok_ = True
                break
            if cur is expr:
                break
        if not ok_:
            return True
    return False



REFERENCE_SPELLINGS = {"type", "dimension_type", "header_type", "value_ref"}


def check_dependency_names(chk):
    """G-FLOW.e: a generated header includes `types/<name>.hpp` for every type it depends on; the files are written
    under the *declared* names while SBE resolves references case-insensitively, so what is registered as a dependency
    must be a declared name (`enc.name`, `get_encoding_name(enc)`), never the spelling of a reference (`f.type`,
    `r.type`, `g.dimension_type`, `schema.header_type`)"""
    f = gen.facts()
    n = 0
    for fn in gen.sbeppc_functions(f):
        for x in walk(fn["body"]):
            c = x.get("callee") or {}
            if x.get("k") != "CXXMemberCallExpr" or c.get("name") not in ("emplace", "insert") or x.get("obj") is None:
                continue
            if "dependencies" not in gen.expr_text(x["obj"], 0, fn):
                continue
            n += 1
            args = x.get("args") or []
            bad = [y.get("name") for a in args for y in walk(a) if y.get("k") == "MemberExpr" and y.get("dk") == "Field" and y.get("name") in REFERENCE_SPELLINGS]
            # a spelling used only as the key of a lookup (get_schema_encoding(schema, f.type).name) is fine
            looked_up = any((y.get("callee") or {}).get("name") in ("get_schema_encoding", "get_schema_encoding_as", "get_encoding", "get_encoding_name")
                            for a in args for y in walk(a))
            key = "dependency:%s#%s" % (gen.short(fn), x.get("l"))
            where = "%s:%s" % (rel(fn["file"]), x.get("l"))
            if bad and not looked_up:
                chk.violation("G-FLOW.e", "dependency:%s" % gen.short(fn), where,
                              "%s registers the reference spelling `%s` as an include dependency: with a reference written in "
                              "another letter case than the declaration (legal in SBE) the generated header includes a file that "
                              "does not exist" % (gen.short(fn), ", ".join(bad)))
            else:
                chk.ok("G-FLOW.e", key, {"where": where, "argument": gen.expr_text(args[0], 0, fn)[:80] if args else ""})
    chk.floor("dependency registrations", n, 4)


# --------------------------------------------------------------- G-FLOW.f
GENERATOR_CLASSES = ("messages_compiler", "types_compiler", "traits_generator", "tags_generator", "names_generator",
                     "schema_compiler", "normal_accessors")


def check_declared_presence(chk):
    """G-FLOW.f: whether a field is stored / optional / constant is decided once, by the validator
    (`get_actual_presence` -> `field_context::actual_presence`): the encoding wins over what the <field> declares.
    A generator that consults the *declared* attribute (`sbe::field::presence`) treats a field whose declaration
    disagrees with its encoding differently from every other generated piece (accessor present but member not
    visited, trait says optional for a type that cannot hold null ...).  The only place where the declaration is the
    truth is a field of a built-in primitive type: every read of `sbe::field::presence` in a generator must be
    dominated by `is_primitive_type(<that field>.type)`."""
    f = gen.facts()
    n = 0
    fns = gen.sbeppc_functions(f) + [fn for fn in f["functions"] if "/sbeppc/src/" in fn["file"] and fn.get("body") is not None
                                     and fn.get("dependent") and fn.get("lambda")]
    seen = set()
    for fn in fns:
        owner = (fn.get("base") or fn.get("qn") or "")
        if not any(c in owner for c in GENERATOR_CLASSES):
            continue
        par = None
        for x in walk(fn["body"]):
            k = x.get("k")
            if k == "MemberExpr" and x.get("dk") == "Field" and x.get("name") == "presence" and (x.get("fieldof") or "").endswith("sbe::field"):
                pass
            elif k == "CXXDependentScopeMemberExpr" and (x.get("member") or x.get("name")) == "presence":
                pass        # generic lambda over fields / types: judged by its guard like a resolved read
            else:
                continue
            base = x.get("base")
            btxt = gen.expr_text(base, 0, None) if isinstance(base, dict) else "?"
            if k == "CXXDependentScopeMemberExpr" and btxt in ("t", "type", "enc"):
                continue    # a <type>'s own presence (the encoding's), not the field's declaration
            ident = (fn["file"], x.get("l"), btxt)
            if ident in seen:
                continue
            seen.add(ident)
            n += 1
            par = par or gen.parents(fn)
            conds = gen.dominating_conditions(fn, x, par)
            texts = [(gen.expr_text(c, 0, None), pol) for c, pol in conds]
            ok = any(pol and "is_primitive_type(" in t and (btxt + ".type") in t for t, pol in texts)
            key = "declared-presence:%s" % gen.short(fn)
            where = "%s:%s" % (rel(fn["file"]), x.get("l"))
            if ok:
                chk.ok("G-FLOW.f", key + "#%s" % x.get("l"), {"where": where, "read": btxt + ".presence", "guard": "is_primitive_type(%s.type)" % btxt},
                       nontrivial=True)
            else:
                chk.violation("G-FLOW.f", key, where,
                              "%s consults the declared presence `%s.presence` of a field outside a "
                              "`is_primitive_type(%s.type)` branch (dominating: {%s}): for a field whose declaration disagrees "
                              "with its encoding (declared constant, type stored; declared optional, type an enum) this piece of "
                              "generated code contradicts the accessors, which follow field_context::actual_presence"
                              % (gen.short(fn), btxt, btxt, "; ".join(("" if pol else "!") + t[:60] for t, pol in texts)))
    chk.floor("declared-presence reads in generators", n, 2)
    return n

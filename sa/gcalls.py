"""Traversal facts of the validators (C08): the rule-enforcing functions are
reached for every position - nested groups, inline composites, every public
encoding - not only where the test suite happens to exercise them."""
import re
from common import *
import gen
import gguard

# caller -> callees that must be reachable from its body (through lambdas), with the reason
REQUIRED = {
    "sbe_schema_validator::validate": (["validate_types", "validate_messages"], "both halves of validation run"),
    "sbe_schema_validator::validate_types": (["validate_public_encoding"], "every public encoding is validated"),
    "sbe_schema_validator::validate_public_encoding": (["validate_encoding", "try_emplace"], "cycle marking before descending"),
    "sbe_schema_validator::validate_messages": (["validate_message_header", "validate_message"], "header + every message"),
    "sbe_schema_validator::validate_message": (["validate_name", "validate_members"], ""),
    "sbe_schema_validator::validate_members": (["validate_name", "validate_field_offset", "validate_block_length", "validate_group_header",
                                                "validate_members", "validate_data_header", "validate_constant_field", "get_encoding"],
                                               "offset / blockLength / header checks for every level, recursion into nested groups"),
    "sbe_schema_validator::validate_encoding(c)": (["validate_name", "validate_encoding", "validate_element_offset"],
                                                   "every element of every (inline or public) composite: encoding + offset"),
    "sbe_schema_validator::validate_encoding(r)": (["validate_name", "get_encoding", "validate_public_encoding"], "refs resolve and pull in their target"),
    "sbe_schema_validator::validate_encoding(t)": (["validate_name", "is_primitive_type", "validate_constant_value", "validate_optional_value",
                                                    "is_single_byte_type"], ""),
    "sbe_schema_validator::validate_encoding(e)": (["validate_name", "validate_valid_values", "is_integral_type"], ""),
    "sbe_schema_validator::validate_encoding(s)": (["validate_name", "validate_choices", "is_unsigned_primitive_type"], ""),
    "sbe_schema_validator::validate_group_header": (["validate_level_header"], ""),
    "sbe_schema_validator::validate_message_header": (["validate_level_header"], ""),
    "sbe_schema_validator::validate_level_header": (["validate_level_header_element", "get_encoding"], ""),
    "sbe_schema_validator::validate_data_header": (["validate_level_header_element", "validate_data_element_type", "get_encoding"], ""),
    "sbe_schema_validator::validate_valid_values": (["validate_name", "value_fits_into_type"], ""),
    "sbe_schema_validator::validate_choices": (["validate_name", "get_primitive_type_size"], ""),
    "sbe_schema_cpp_validator::validate": (["validate_schema_name", "validate_type_names", "validate_message_names"], ""),
    "sbe_schema_cpp_validator::validate_level_members": (["validate_name", "validate_member_name", "validate_level_members"],
                                                         "keyword and reserved-member-name checks at every nesting level"),
    "schema_parser::get_level_members": (["throw_if_unexpected_member_type", "throw_if_not_unique_member_name", "parse_group_member"], "order + uniqueness per level"),
    "schema_parser::parse_group_member": (["get_level_members"], "recursion into nested groups"),
    "schema_parser::parse_composite_elements": (["add_or_throw", "parse_composite_encoding"], "unique element names, nested composites"),
    "schema_parser::add_unique_message": (["add_or_throw"], "unique message names and ids"),
    "schema_parser::get_enum_valid_values": (["add_or_throw"], "unique validValue names"),
    "schema_parser::get_set_choices": (["add_or_throw"], "unique choice names"),
}


def callees(fn, fns_by_key, seen=None, depth=0):
    out = set()
    for n in walk(fn["body"]):
        c = n.get("callee")
        if c:
            out.add(c.get("name"))
        if n.get("k") in ("UnresolvedLookupExpr", "UnresolvedMemberExpr", "CXXDependentScopeMemberExpr") and n.get("name"):
            out.add(n["name"])      # call inside a generic lambda (resolved per instantiation)
        if n.get("k") == "LambdaExpr" and depth < 4:
            k = (n.get("callop") or {}).get("key")
            if k in fns_by_key:
                out |= callees(fns_by_key[k], fns_by_key, seen, depth + 1)
    return out


def check(chk):
    f = gen.facts()
    fns = gen.sbeppc_functions(f)
    by_key = {fn["key"]: fn for fn in f["functions"] if fn.get("body") is not None and fn.get("key")}
    by_short = {}
    for fn in fns:
        by_short.setdefault(gguard.short_fn(fn), []).append(fn)
    for caller, (need, why) in REQUIRED.items():
        lst = by_short.get(caller)
        if not lst:
            chk.broke("G-CALL: function %s not found (renamed? update gcalls.REQUIRED)" % caller)
            continue
        for fn in lst:
            cs = callees(fn, by_key)
            missing = [x for x in need if x not in cs]
            key = "calls:" + caller
            if missing:
                chk.violation("G-CALL", key, "%s:%s" % (rel(fn["file"]), fn["line"]),
                              "%s no longer reaches %s (%s): the rule is not enforced at these positions" % (caller, missing, why))
            else:
                chk.ok("G-CALL", key + "#" + fn["qn"][-40:], {"caller": caller, "reaches": need})


# rules the library or the generated text needs (or SBE states) that must have an enforcing site in the validator;
# `any_of` = functions one of which an enforcing implementation has to reach from the named validator function
REQUIRED_RULES = [
    ("header-members-unsigned", "sbe_schema_validator::validate_level_header_element", ["is_unsigned_primitive_type", "is_integral_type"],
     "blockLength / numInGroup / length / header fields must be integers: the library applies std::make_signed and "
     "integer arithmetic to them (a float numInGroup makes the generated header ill-formed)"),
    ("enum-values-unique", "sbe_schema_validator::validate_valid_values", ["add_or_throw", "count", "find", "insert", "emplace", "try_emplace", "contains"],
     "validValue *values* must be unique: tag_invoke emits one `case` per validValue (duplicate case value does not compile)"),
    ("block-length-fits-header-type", "sbe_schema_validator::validate_block_length", ["value_fits_into_type", "validate_block_length_representation"],
     "the final block length of a message / group must be representable by the header's blockLength type: the generated "
     "filler brace-initialises that type with the compiled constant (300-byte entries with a uint8 blockLength do not compile)"),
    ("offset-plus-size-bounded", "sbe_schema_validator::validate_field_offset", ["max", "add_overflow", "checked_add"],
     "offset + size is computed in uint64 without an overflow / upper-bound test (offset=18446744073709551615 wraps and is accepted)"),
]


def check_required_rules(chk):
    f = gen.facts()
    fns = gen.sbeppc_functions(f)
    by_key = {fn["key"]: fn for fn in f["functions"] if fn.get("body") is not None and fn.get("key")}
    by_short = {}
    for fn in fns:
        by_short.setdefault(gguard.short_fn(fn), []).append(fn)
    for key, where_fn, any_of, why in REQUIRED_RULES:
        lst = by_short.get(where_fn)
        if not lst:
            chk.broke("G-REQ: %s not found" % where_fn)
            continue
        cs = set()
        work, seen = list(lst), set()
        depth = {id(fn): 0 for fn in lst}
        while work:
            fn = work.pop()
            if id(fn) in seen:
                continue
            seen.add(id(fn))
            cs |= callees(fn, by_key)
            if depth[id(fn)] >= 2:
                continue
            # follow calls into helpers of the same class (validate_x -> advance_offset -> numeric_limits::max)
            for n in walk(fn["body"]):
                k = (n.get("callee") or {}).get("key")
                t = by_key.get(k)
                if t is not None and t["file"] == fn["file"] and id(t) not in seen:
                    depth[id(t)] = depth[id(fn)] + 1
                    work.append(t)
        # an overflow test has no callee of its own (numeric_limits<>::max() is folded): accept the idiom
        # `size > MAX - offset` in a throw-site guard of any function reached
        if key == "offset-plus-size-bounded":
            sites, _ = gguard.extract()
            reached = {gguard.short_fn(fx) for fx in gen.sbeppc_functions(f) if id(fx) in seen}
            for k2, lst2 in sites.items():
                if k2.split(" | ")[0] in reached:
                    for g, fc in lst2:
                        if any(re.search(r"\(?\d{15,} - [\w.>*()-]+\)? <|< \(?\d{15,} - |add_overflow", c2) for c2 in g):
                            cs.add("max")
        if any(a in cs for a in any_of):
            chk.ok("G-REQ", key, {"enforced_in": where_fn})
        else:
            chk.violation("G-REQ", key, "%s:%s" % (rel(lst[0]["file"]), lst[0]["line"]), "missing validator rule: " + why)


# (function, first, then): the call to `first` precedes the call to `then` in source order (both in the same body):
# invariants of rules/haz_invariants.json rely on these orders
ORDER = [
    ("sbe_schema_validator::validate_members", "validate_group_header", "validate_members",
     "a group's dimension type is validated before its members (validate_block_length_representation and the generators "
     "dereference it)"),
    ("sbe_schema_validator::validate_messages", "validate_message_header", "validate_message",
     "the message header type is validated before any message"),
    ("sbe_schema_validator::validate", "validate_types", "validate_messages", "types (sizes, offsets) are validated before messages use them"),
]


def check_order(chk):
    f = gen.facts()
    by_short = {}
    for fn in gen.sbeppc_functions(f):
        by_short.setdefault(gguard.short_fn(fn), []).append(fn)
    for fname, first, then, why in ORDER:
        lst = by_short.get(fname)
        if not lst:
            chk.broke("G-CALL.order: %s not found" % fname)
            continue
        for fn in lst[:1]:
            seq = [(n.get("callee") or {}).get("name") for n in walk(fn["body"]) if (n.get("callee") or {}).get("name") in (first, then)]
            key = "order:%s:%s<%s" % (fname, first, then)
            if first in seq and then in seq and seq.index(first) < seq.index(then):
                chk.ok("G-CALL.order", key, {"sequence": seq[:6]})
            else:
                chk.violation("G-CALL.order", key, "%s:%s" % (rel(fn["file"]), fn["line"]),
                              "%s: %s is no longer called before %s (%s)" % (fname, first, then, why))

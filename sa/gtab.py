"""G-TAB: sibling per-primitive tables of the generator.

Facts: static const unordered_map/unordered_set initialisers in the sbeppc TU.
Rules:
  keys      every per-primitive table has exactly the 11 SBE primitive names
            as keys (map::at on a missing key is an uncaught out_of_range);
  sizes     SBE size table (from the SBE standard) == validator size table ==
            sizeof(cpp type named by primitive_type_to_cpp_type) ==
            get_underlying_size row;
  wrapper   required/optional wrapper names denote sbepp built-ins whose
            value_type is the cpp type of the same primitive;
  literal   built-in min/max/null literal of each primitive, braced into the
            primitive's C++ type exactly as the generated `return {<lit>};`
            does, equals the corresponding sbepp built-in constant (oracle
            named by C16).  Decided by a witness TU of static_asserts over two
            *constants* (no library logic evaluated): a literal that does not
            even initialise its type is a compile error attributed to its row.
  classes   single-byte / integral / unsigned sets equal the SBE classes.
"""
import os
import re
from common import *

PRIMS = ["char", "int8", "int16", "int32", "int64", "uint8", "uint16",
         "uint32", "uint64", "float", "double"]
SBE_SIZE = {"char": 1, "int8": 1, "int16": 2, "int32": 4, "int64": 8,
            "uint8": 1, "uint16": 2, "uint32": 4, "uint64": 8, "float": 4,
            "double": 8}
SBE_SINGLE = {"char", "int8", "uint8"}
SBE_INTEGRAL = {"char", "int8", "uint8", "int16", "uint16", "int32", "uint32", "int64", "uint64"}
SBE_UNSIGNED = {"uint8", "uint16", "uint32", "uint64"}


def leaf_vals(n):
    out = []
    for x in walk(n):
        if "str" in x:
            out.append(x["str"])
        elif "cv" in x and x.get("k") not in ("CXXConstructExpr",):
            out.append(int(x["cv"]))
    return out


def table_rows(var):
    """Rows of a static table initialiser: list of leaf-literal lists, one per
    initializer_list element."""
    init = var.get("init")
    for n in walk(init):
        if n.get("k") == "CXXStdInitializerListExpr":
            il = n.get("sub")
            while il is not None and il.get("k") != "InitListExpr":
                il = il.get("sub")
            if il is None:
                return None
            return [leaf_vals(e) for e in il.get("inits", [])]
    return None


def find_table(facts, fn_suffix, name):
    for v in facts["vars"]:
        if v["name"] == name and (v.get("infn") or "").endswith(fn_suffix):
            return v
    return None


TABLES = [
    # (function suffix, var name, kind)
    ("utils::is_primitive_type", "primitive_types", "set"),
    ("utils::primitive_type_to_cpp_type", "map", "map"),
    ("utils::primitive_type_to_wrapper_type", "required_types", "map"),
    ("utils::primitive_type_to_wrapper_type", "optional_types", "map"),
    ("types_compiler::get_min_value", "built_in_min_values", "map"),
    ("types_compiler::get_max_value", "built_in_max_values", "map"),
    ("types_compiler::get_null_value", "built_in_null_values", "map"),
    ("sbe_schema_validator::get_primitive_type_size", "map", "map"),
]


def load_tables(chk, facts):
    tabs = {}
    for fn, name, kind in TABLES + [
            ("utils::get_underlying_size", "map", "map"),
            ("sbe_schema_validator::is_single_byte_type", "single_byte_types", "set"),
            ("sbe_schema_validator::is_integral_type", "integral_types", "set"),
            ("sbe_schema_validator::is_unsigned_primitive_type", "unsigned_types", "set")]:
        v = find_table(facts, fn, name)
        if v is None:
            chk.broke("G-TAB: table %s in %s not found (re-implemented? extend extractor)" % (name, fn))
            continue
        rows = table_rows(v)
        if rows is None:
            chk.broke("G-TAB: table %s in %s has no initializer list" % (name, fn))
            continue
        where = "%s:%d" % (rel(v["file"]), v["line"])
        if kind == "set":
            tabs[(fn, name)] = (where, [r[0] for r in rows if r])
        else:
            bad = [r for r in rows if len(r) != 2]
            if bad:
                chk.broke("G-TAB: table %s in %s: row shape %r" % (name, fn, bad[0]))
                continue
            tabs[(fn, name)] = (where, [(r[0], r[1]) for r in rows])
    return tabs


def run_witness(chk, rows, tag):
    """rows: list of (row_key, where, c++ static_assert line, rule).  Compiles
    them in one TU; returns set of failing row indexes."""
    d = os.path.join(CACHE, "wit")
    os.makedirs(d, exist_ok=True)
    src = os.path.join(d, "gtab_%s_%d.cpp" % (tag, os.getpid()))
    with open(src, "w") as f:
        f.write("#include <sbepp/sbepp.hpp>\n#include <type_traits>\n#include <limits>\n#include <cstdint>\n")
        f.write("namespace w{template<class T> constexpr bool same(T a,T b){return (a==b)||(a!=a&&b!=b);}}\n")
        for i, (_, _, line, _) in enumerate(rows):
            f.write('#line %d "row"\n%s\n' % (1000 + i, line))
    r = run(["clang++", "-std=c++17", "-fsyntax-only", "-ferror-limit=0", "-w",
             "-I" + os.path.join(REPO, "sbepp/src"), src])
    os.remove(src)
    failing = {}
    for m in re.finditer(r"^row:(\d+):\d+: error: (.*)$", r.stderr, re.M):
        failing.setdefault(int(m.group(1)) - 1000, m.group(2))
    other = [l for l in r.stderr.splitlines() if " error: " in l and not l.startswith("row:")]
    if other:
        raise AnalysisBroken("G-TAB witness TU has errors outside rows: " + other[0])
    if r.returncode != 0 and not failing:
        raise AnalysisBroken("G-TAB witness TU failed: " + r.stderr[-500:])
    return failing


def check(chk, facts, which=("keys", "sizes", "wrapper", "literal", "classes")):
    tabs = load_tables(chk, facts)
    n_rows = 0
    # ---- keys
    if "keys" in which:
        for (fn, name, kind) in TABLES:
            t = tabs.get((fn, name))
            if not t:
                continue
            where, rows = t
            keys = rows if kind == "set" else [k for k, _ in rows]
            n_rows += len(keys)
            key = "keys:%s::%s" % (fn, name)
            missing = [p for p in PRIMS if p not in keys]
            extra = [k for k in keys if k not in PRIMS]
            dup = sorted({k for k in keys if keys.count(k) > 1})
            if missing or extra or dup:
                chk.violation("G-TAB.keys", key, where,
                              "table %s::%s: missing %s extra %s duplicate %s (map::at on a missing "
                              "primitive is an uncaught std::out_of_range)" % (fn, name, missing, extra, dup))
            else:
                chk.ok("G-TAB.keys", key, {"where": where, "keys": len(keys)})
    get = lambda fn, name: dict(tabs[(fn, name)][1]) if (fn, name) in tabs and isinstance(tabs[(fn, name)][1][0], tuple) else {}
    cpp = get("utils::primitive_type_to_cpp_type", "map")
    req = get("utils::primitive_type_to_wrapper_type", "required_types")
    opt = get("utils::primitive_type_to_wrapper_type", "optional_types")
    vsize = get("sbe_schema_validator::get_primitive_type_size", "map")
    usize = get("utils::get_underlying_size", "map")
    wit = []
    if "sizes" in which:
        w_v = tabs.get(("sbe_schema_validator::get_primitive_type_size", "map"), ("?",))[0]
        w_u = tabs.get(("utils::get_underlying_size", "map"), ("?",))[0]
        w_c = tabs.get(("utils::primitive_type_to_cpp_type", "map"), ("?",))[0]
        for p in PRIMS:
            if p in vsize:
                key = "size:validator:%s" % p
                if vsize[p] != SBE_SIZE[p]:
                    chk.violation("G-TAB.sizes", key, w_v,
                                  "get_primitive_type_size[%s]=%s, SBE size is %d" % (p, vsize[p], SBE_SIZE[p]))
                else:
                    chk.ok("G-TAB.sizes", key, {"where": w_v, "size": vsize[p]})
            if p in cpp:
                wit.append(("size:cpptype:%s" % p, w_c,
                            "static_assert(sizeof(%s) == %d, \"\");" % (cpp[p], SBE_SIZE[p]), "G-TAB.sizes"))
                c = cpp[p]
                if c in usize:
                    key = "size:underlying:%s" % p
                    if usize[c] != SBE_SIZE[p]:
                        chk.violation("G-TAB.sizes", key, w_u,
                                      "get_underlying_size[%s]=%s, SBE size of %s is %d" % (c, usize[c], p, SBE_SIZE[p]))
                    else:
                        chk.ok("G-TAB.sizes", key, {"where": w_u})
                else:
                    chk.violation("G-TAB.sizes", "size:underlying:%s" % p, w_u,
                                  "get_underlying_size has no row for %r (cpp type of %s): map::at throws" % (c, p))
        if usize:
            extra = [k for k in usize if k not in cpp.values()]
            if extra:
                chk.violation("G-TAB.sizes", "size:underlying:extra", w_u, "rows for unknown cpp types %s" % extra)
    if "wrapper" in which:
        w_r = tabs.get(("utils::primitive_type_to_wrapper_type", "required_types"), ("?",))[0]
        w_o = tabs.get(("utils::primitive_type_to_wrapper_type", "optional_types"), ("?",))[0]
        for p in PRIMS:
            if p in req and p in cpp:
                wit.append(("wrapper:required:%s" % p, w_r,
                            "static_assert(std::is_same<%s::value_type, %s>::value && ::sbepp::is_required_type<%s>::value "
                            "&& std::is_same<%s, ::sbepp::%s_t>::value, \"\");" % (req[p], cpp[p], req[p], req[p], p),
                            "G-TAB.wrapper"))
            if p in opt and p in cpp:
                wit.append(("wrapper:optional:%s" % p, w_o,
                            "static_assert(std::is_same<%s::value_type, %s>::value && ::sbepp::is_optional_type<%s>::value "
                            "&& std::is_same<%s, ::sbepp::%s_opt_t>::value, \"\");" % (opt[p], cpp[p], opt[p], opt[p], p),
                            "G-TAB.wrapper"))
    if "literal" in which:
        for kind, fn, name in (("min", "types_compiler::get_min_value", "built_in_min_values"),
                               ("max", "types_compiler::get_max_value", "built_in_max_values"),
                               ("null", "types_compiler::get_null_value", "built_in_null_values")):
            t = tabs.get((fn, name))
            if not t:
                continue
            where, rows = t
            for p, lit in rows:
                if p not in PRIMS:
                    continue
                T = "::sbepp::%s_opt_t" % p
                wit.append(("literal:%s:%s" % (kind, p), where,
                            "static_assert(w::same<%s::value_type>(%s::value_type{%s}, %s::%s_value()), \"\");"
                            % (T, T, lit, T, kind), "G-TAB.literal"))
                if kind != "null":
                    R = "::sbepp::%s_t" % p
                    wit.append(("literal:%s:%s:required" % (kind, p), where,
                                "static_assert(w::same<%s::value_type>(%s::value_type{%s}, %s::%s_value()), \"\");"
                                % (R, R, lit, R, kind), "G-TAB.literal"))
    if wit:
        failing = run_witness(chk, wit, chk.prop)
        for i, (key, where, line, rule) in enumerate(wit):
            if i in failing:
                chk.violation(rule, key, where,
                              "generator table row disagrees with the library/SBE constant: `%s` -> %s"
                              % (line, failing[i]), {"witness": line})
            else:
                chk.ok(rule, key, {"where": where, "witness": line})
    if "classes" in which:
        for (fn, name, exp) in (("sbe_schema_validator::is_single_byte_type", "single_byte_types", SBE_SINGLE),
                                ("sbe_schema_validator::is_integral_type", "integral_types", SBE_INTEGRAL),
                                ("sbe_schema_validator::is_unsigned_primitive_type", "unsigned_types", SBE_UNSIGNED)):
            t = tabs.get((fn, name))
            if not t:
                continue
            where, rows = t
            key = "class:%s" % name
            if set(rows) != exp:
                chk.violation("G-TAB.classes", key, where, "%s = %s, SBE class is %s" % (name, sorted(rows), sorted(exp)))
            else:
                chk.ok("G-TAB.classes", key, {"where": where, "members": sorted(rows)})
    return tabs

"""Independent reading of an SBE XML schema (python xml.etree), implementing the
SBE 1.0 layout rules and the documented sbepp mapping (doc/*.md).  Shares no
code with sbeppc; it is the oracle side of the translation validation (E4) and
the source of the harness generator.

Layout rules implemented (SBE 1.0 section 4, 5):
  * primitive sizes; type size = length * primitive size; constant members
    occupy no space;
  * composite: element offset = explicit offset or end of previous
    non-constant element; size = end of last element;
  * message / group block: field offset likewise, constants skipped;
    blockLength = explicit or end of last field;
  * field presence: type's own presence for <type> encodings; enums: required
    unless constant; sets: required; composite: field's.
"""
import os
import xml.etree.ElementTree as ET

PRIM_SIZE = {"char": 1, "int8": 1, "int16": 2, "int32": 4, "int64": 8,
             "uint8": 1, "uint16": 2, "uint32": 4, "uint64": 8, "float": 4,
             "double": 8}
PRIM_CPP = {"char": "char", "int8": "signed char", "int16": "short", "int32": "int",
            "int64": "long", "uint8": "unsigned char", "uint16": "unsigned short",
            "uint32": "unsigned int", "uint64": "unsigned long", "float": "float",
            "double": "double"}


def local(tag):
    return tag.split("}")[-1].split(":")[-1]


class ModelError(Exception):
    pass


def num(s, what):
    try:
        if s.strip().lower().startswith("0x"):
            raise ValueError
        return int(s)
    except (ValueError, AttributeError):
        raise ModelError("bad number %r for %s" % (s, what))


class Common:
    kind = "?"

    def common(self, e):
        self.name = e.get("name")
        self.description = e.get("description", "")
        self.since = num(e.get("sinceVersion", "0"), "sinceVersion")
        d = e.get("deprecated")
        self.deprecated = None if d is None else num(d, "deprecated")
        off = e.get("offset")
        self.custom_offset = None if off is None else num(off, "offset")
        self.semantic_type = e.get("semanticType", "")


class Type(Common):
    kind = "type"

    def __init__(self, e):
        self.common(e)
        self.primitive = e.get("primitiveType")
        self.presence = e.get("presence", "required")
        self.min = e.get("minValue")
        self.max = e.get("maxValue")
        self.null = e.get("nullValue")
        self.character_encoding = e.get("characterEncoding")
        self.value_ref = e.get("valueRef") if self.presence == "constant" else None
        text = e.text if (e.text is not None and e.text != "") else None
        self.const_text = text if self.presence == "constant" else None
        ln = e.get("length")
        if ln is not None:
            self.length = num(ln, "length")
        elif self.presence == "constant" and self.primitive == "char" and text is not None:
            self.length = len(text.encode("utf-8"))
        else:
            self.length = 1
        self.size = self.length * PRIM_SIZE.get(self.primitive, 0)
        self.is_constant = self.presence == "constant"


class ValidValue(Common):
    kind = "validValue"

    def __init__(self, e):
        self.common(e)
        self.value = e.text or ""


class Enum(Common):
    kind = "enum"

    def __init__(self, e):
        self.common(e)
        self.encoding_type = e.get("encodingType")
        self.values = [ValidValue(c) for c in e if local(c.tag) == "validValue"]
        self.is_constant = False


class Choice(Common):
    kind = "choice"

    def __init__(self, e):
        self.common(e)
        self.index = num(e.text or "", "choice")


class Set(Common):
    kind = "set"

    def __init__(self, e):
        self.common(e)
        self.encoding_type = e.get("encodingType")
        self.choices = [Choice(c) for c in e if local(c.tag) == "choice"]
        self.is_constant = False


class Ref(Common):
    kind = "ref"

    def __init__(self, e):
        self.common(e)
        self.type = e.get("type")


class Composite(Common):
    kind = "composite"

    def __init__(self, e):
        self.common(e)
        self.elements = []
        for c in e:
            t = local(c.tag)
            if t == "type":
                self.elements.append(Type(c))
            elif t == "composite":
                self.elements.append(Composite(c))
            elif t == "enum":
                self.elements.append(Enum(c))
            elif t == "set":
                self.elements.append(Set(c))
            elif t == "ref":
                self.elements.append(Ref(c))
        self.is_constant = False

    def element(self, name):
        for el in self.elements:
            if el.name == name:
                return el
        return None


class Field(Common):
    kind = "field"

    def __init__(self, e):
        self.common(e)
        self.id = num(e.get("id"), "id")
        self.type = e.get("type")
        self.presence_attr = e.get("presence", "required")
        self.value_ref = e.get("valueRef")


class Data(Common):
    kind = "data"

    def __init__(self, e):
        self.common(e)
        self.id = num(e.get("id"), "id")
        self.type = e.get("type")


class Level(Common):
    def members_from(self, e):
        self.fields, self.groups, self.data = [], [], []
        for c in e:
            t = local(c.tag)
            if t == "field":
                self.fields.append(Field(c))
            elif t == "group":
                self.groups.append(Group(c))
            elif t == "data":
                self.data.append(Data(c))
        bl = e.get("blockLength")
        self.custom_block_length = None if bl is None else num(bl, "blockLength")

    @property
    def members(self):
        return self.fields + self.groups + self.data


class Group(Level):
    kind = "group"

    def __init__(self, e):
        self.common(e)
        self.id = num(e.get("id"), "id")
        self.dimension_type = e.get("dimensionType", "groupSizeEncoding")
        self.members_from(e)


class Message(Level):
    kind = "message"

    def __init__(self, e):
        self.common(e)
        self.id = num(e.get("id"), "id")
        self.members_from(e)


class Schema:
    def __init__(self, path, name=None):
        self.path = path
        root = ET.parse(path).getroot()
        if local(root.tag) != "messageSchema":
            for c in root:
                if local(c.tag) == "messageSchema":
                    root = c
                    break
        self.package = root.get("package", "")
        self.name = name or self.package
        self.id = num(root.get("id"), "schema id")
        self.version = num(root.get("version"), "schema version")
        self.semantic_version = root.get("semanticVersion", "")
        self.description = root.get("description", "")
        self.byte_order = root.get("byteOrder", "littleEndian")
        self.header_type = root.get("headerType", "messageHeader")
        self.types = {}        # lower-case name -> encoding
        self.type_order = []
        self.messages = []
        for c in root:
            t = local(c.tag)
            if t == "types":
                for e in c:
                    k = local(e.tag)
                    enc = None
                    if k == "type":
                        enc = Type(e)
                    elif k == "composite":
                        enc = Composite(e)
                    elif k == "enum":
                        enc = Enum(e)
                    elif k == "set":
                        enc = Set(e)
                    if enc is not None:
                        self.types[enc.name.lower()] = enc
                        self.type_order.append(enc)
            elif t == "message":
                self.messages.append(Message(c))
            elif t == "include":
                raise ModelError("xi:include is not modelled")
        self._layout()

    # ------------------------------------------------------------- lookups
    def enc(self, name):
        return self.types.get(name.lower())

    def endian(self):
        return "little" if self.byte_order == "littleEndian" else "big"

    def resolve_prim(self, encoding_type):
        """primitive type of an enum/set encodingType (primitive or <type>)."""
        if encoding_type in PRIM_SIZE:
            return encoding_type
        t = self.enc(encoding_type)
        if isinstance(t, Type):
            return t.primitive
        raise ModelError("encodingType %s" % encoding_type)

    def resolve_ref(self, r):
        e = self.enc(r.type)
        if e is None:
            raise ModelError("ref %s -> %s" % (r.name, r.type))
        return e

    # -------------------------------------------------------------- layout
    def _size_enc(self, enc, stack=()):
        if getattr(enc, "_sized", False):
            return enc.size
        if isinstance(enc, Type):
            pass
        elif isinstance(enc, (Enum, Set)):
            enc.primitive = self.resolve_prim(enc.encoding_type)
            enc.size = PRIM_SIZE[enc.primitive]
        elif isinstance(enc, Ref):
            tgt = self.resolve_ref(r=enc)
            if id(tgt) in stack:
                raise ModelError("cyclic reference")
            enc.target = tgt
            enc.size = self._size_enc(tgt, stack + (id(tgt),))
            enc.is_constant = isinstance(tgt, Type) and tgt.is_constant
        elif isinstance(enc, Composite):
            off = 0
            for el in enc.elements:
                self._size_enc(el, stack + (id(enc),))
                if el.is_constant:
                    el.offset = None
                    continue
                if el.custom_offset is not None:
                    el.offset = el.custom_offset
                    off = el.custom_offset
                else:
                    el.offset = off
                off += el.size
            enc.size = off
        enc._sized = True
        return enc.size

    def header_element_type(self, comp, name):
        el = comp.element(name)
        if el is None:
            return None
        if isinstance(el, Ref):
            el = self.resolve_ref(el)
        return el if isinstance(el, Type) else None

    def _layout_level(self, lvl, path):
        off = 0
        lvl.path = path
        for f in lvl.fields:
            f.path = path + [f.name]
            if f.type in PRIM_SIZE:
                f.enc = None
                f.primitive = f.type
                f.size = PRIM_SIZE[f.type]
                f.presence = f.presence_attr
            else:
                e = self.enc(f.type)
                if e is None:
                    raise ModelError("field type %s" % f.type)
                f.enc = e
                f.size = e.size
                if isinstance(e, Type):
                    f.presence = e.presence
                elif isinstance(e, Enum):
                    f.presence = "required" if f.presence_attr == "optional" else f.presence_attr
                elif isinstance(e, Set):
                    f.presence = "required"
                else:
                    f.presence = f.presence_attr
            if f.presence == "constant":
                f.offset = None
                continue
            if f.custom_offset is not None:
                f.offset = f.custom_offset
                off = f.custom_offset
            else:
                f.offset = off
            off += f.size
        lvl.min_block_length = off
        lvl.block_length = lvl.custom_block_length if lvl.custom_block_length is not None else off
        for g in lvl.groups:
            g.header = self.enc(g.dimension_type)
            self._layout_level(g, path + [g.name])
        for d in lvl.data:
            d.path = path + [d.name]
            d.header = self.enc(d.type)
        # a level is "flat" (entries of constant size) iff it has no groups/data
        lvl.flat = not lvl.groups and not lvl.data

    def _layout(self):
        for enc in self.type_order:
            self._size_enc(enc)
        self.header = self.enc(self.header_type)
        for m in self.messages:
            self._layout_level(m, [m.name])

    # -------------------------------------------------------------- walks
    def levels(self):
        """yield (level, parent, depth) for every message and group."""
        def rec(l, parent, depth):
            yield l, parent, depth
            for g in l.groups:
                yield from rec(g, l, depth + 1)
        for m in self.messages:
            yield from rec(m, None, 0)

    def composites(self):
        """every composite (public and nested inline), with its tag path."""
        def rec(c, path):
            yield c, path
            for el in c.elements:
                if isinstance(el, Composite):
                    yield from rec(el, path + [el.name])
        for enc in self.type_order:
            if isinstance(enc, Composite):
                yield from rec(enc, [enc.name])


def load(path, name=None):
    return Schema(path, name)

"""Generates, from the XML model (not from sbeppc output), a C++ translation
unit that names every entity of a schema under its *schema name* and calls
every accessor flavour, so that clang instantiates the generated class
templates and the library templates at the types the schema spans.

The TU is never executed.  It doubles as the C07 'touch everything' witness:
it must compile, which shows every entity is reachable under its unmodified
name at the documented path.
"""
from sbe_model import *

CURSOR_KINDS = [
    ("plain", "c"),
    ("init", "::sbepp::cursor_ops::init(c)"),
    ("dont_move", "::sbepp::cursor_ops::dont_move(c)"),
    ("init_dont_move", "::sbepp::cursor_ops::init_dont_move(c)"),
    ("skip", "::sbepp::cursor_ops::skip(c)"),
]


class Gen:
    def __init__(self, schema, all_cursor_kinds=True, arrays=True):
        self.s = schema
        self.ns = "::" + schema.name
        self.out = []
        self.fn_id = 0
        self.kinds = CURSOR_KINDS if all_cursor_kinds else CURSOR_KINDS[:1]
        self.arrays = arrays
        self.inst = []

    def w(self, s=""):
        self.out.append(s)

    # ------------------------------------------------------------ helpers
    def tag_msg(self, path):
        return self.ns + "::schema::messages::" + "::".join(path)

    def tag_type(self, path):
        return self.ns + "::schema::types::" + "::".join(path)

    def field_kind(self, f):
        """scalar | enum | set | array | composite | const"""
        if f.presence == "constant":
            return "const"
        if f.enc is None:
            return "scalar"
        e = f.enc
        if isinstance(e, Type):
            return "scalar" if e.length == 1 else "array"
        if isinstance(e, Enum):
            return "enum"
        if isinstance(e, Set):
            return "set"
        return "composite"

    def elem_kind(self, el):
        tgt = el.target if isinstance(el, Ref) else el
        if isinstance(tgt, Type):
            if tgt.is_constant:
                return "const"
            return "scalar" if tgt.length == 1 else "array"
        if isinstance(tgt, Enum):
            return "enum"
        if isinstance(tgt, Set):
            return "set"
        return "composite"

    # ---------------------------------------------------------- composites
    def composite_fn(self, comp, path):
        """function templates touching every element of a composite view."""
        name = "comp_%d" % self.fn_id
        self.fn_id += 1
        subs = []
        for el in comp.elements:
            k = self.elem_kind(el)
            if k == "composite":
                tgt = el.target if isinstance(el, Ref) else el
                tpath = [tgt.name] if isinstance(el, Ref) else path + [el.name]
                # public composite referenced: its own function is generated at top level
                if isinstance(el, Ref):
                    subs.append((el, None))
                else:
                    subs.append((el, self.composite_fn(tgt, tpath)))
        self.w("template<typename View> void %s_ro(View v)" % name)
        self.w("{")
        self.w("    (void)::sbepp::size_bytes(v); (void)::sbepp::addressof(v);")
        self.w("    ::sbepp::visit<vh::probe_visitor>(v); ::sbepp::visit_children<vh::probe_visitor>(v);")
        for el in comp.elements:
            k = self.elem_kind(el)
            tag = self.tag_type(path + [el.name])
            self.w("    (void)v.%s(); (void)::sbepp::get_by_tag<%s>(v);" % (el.name, tag))
            if k == "array" and self.arrays:
                self.w("    vh::touch_static_array_ro(v.%s());" % el.name)
            elif k == "scalar":
                tgt = el.target if isinstance(el, Ref) else el
                self.w("    vh::touch_%s(v.%s());" % ("optional" if tgt.presence == "optional" else "scalar", el.name))
        for el, sub in subs:
            if sub:
                self.w("    %s_ro(v.%s());" % (sub, el.name))
        self.w("}")
        self.w("template<typename View> void %s_rw(View v)" % name)
        self.w("{")
        for el in comp.elements:
            k = self.elem_kind(el)
            tag = self.tag_type(path + [el.name])
            if k in ("scalar", "enum", "set"):
                self.w("    v.%s(decltype(v.%s()){}); ::sbepp::set_by_tag<%s>(v, decltype(v.%s()){});"
                       % (el.name, el.name, tag, el.name))
            elif k == "array" and self.arrays:
                self.w("    vh::touch_static_array_rw(v.%s());" % el.name)
        for el, sub in subs:
            if sub:
                self.w("    %s_rw(v.%s());" % (sub, el.name))
        self.w("}")
        return name

    # -------------------------------------------------------------- levels
    def level_fn(self, lvl, path):
        name = "lvl_%d" % self.fn_id
        self.fn_id += 1
        gsubs = [(g, self.level_fn(g, path + [g.name])) for g in lvl.groups]
        # ---- read-only
        self.w("template<typename View, typename Cur> void %s_ro(View v, Cur& c)" % name)
        self.w("{")
        self.w("    (void)::sbepp::size_bytes(v); (void)::sbepp::addressof(v);")
        self.w("    { vh::probe_visitor pv; ::sbepp::visit(v, c, pv); ::sbepp::visit_children(v, c, pv); }")
        self.w("    ::sbepp::visit<vh::probe_visitor>(v); ::sbepp::visit_children<vh::probe_visitor>(v);")
        for f in lvl.fields:
            k = self.field_kind(f)
            tag = self.tag_msg(path + [f.name])
            self.w("    (void)v.%s(); (void)::sbepp::get_by_tag<%s>(v);" % (f.name, tag))
            if k == "const":
                continue
            for kn, ce in self.kinds:
                self.w("    v.%s(%s); ::sbepp::get_by_tag<%s>(v, %s);" % (f.name, ce, tag, ce))
            if k == "array" and self.arrays:
                self.w("    vh::touch_static_array_ro(v.%s());" % f.name)
        for g, sub in gsubs:
            tag = self.tag_msg(path + [g.name])
            self.w("    (void)v.%s(); (void)::sbepp::get_by_tag<%s>(v);" % (g.name, tag))
            for kn, ce in self.kinds:
                self.w("    v.%s(%s); ::sbepp::get_by_tag<%s>(v, %s);" % (g.name, ce, tag, ce))
            self.w("    vh::touch_group_ro(v.%s(), c);" % g.name)
            if g.flat:
                self.w("    vh::touch_flat_ro(v.%s());" % g.name)
            self.w("    %s_ro(v.%s().front(), c);" % (sub, g.name))
            self.w("    vh::touch_entry_ctor<decltype(v.%s().front())>();" % g.name)
            self.w("    %s_via_cursor(v.%s(), c, vh::same_byte<View, Cur>{});" % (sub, g.name))
        for d in lvl.data:
            tag = self.tag_msg(path + [d.name])
            self.w("    (void)v.%s(); (void)::sbepp::get_by_tag<%s>(v);" % (d.name, tag))
            for kn, ce in self.kinds:
                self.w("    v.%s(%s); ::sbepp::get_by_tag<%s>(v, %s);" % (d.name, ce, tag, ce))
            if self.arrays:
                self.w("    vh::touch_dynamic_array_ro(v.%s());" % d.name)
        self.w("}")
        if path and len(path) > 1:
            self.w("template<typename G, typename Cur> void %s_via_cursor(G g, Cur& c, std::true_type)" % name)
            self.w("{ auto r_ = g.cursor_range(c); %s_ro(*r_.begin(), c); }" % name)
            self.w("template<typename G, typename Cur> void %s_via_cursor(G, Cur&, std::false_type) {}" % name)
        # ---- read-write
        self.w("template<typename View, typename Cur> void %s_rw(View v, Cur& c)" % name)
        self.w("{")
        for f in lvl.fields:
            k = self.field_kind(f)
            tag = self.tag_msg(path + [f.name])
            if k in ("scalar", "enum", "set"):
                self.w("    v.%s(decltype(v.%s()){}); ::sbepp::set_by_tag<%s>(v, decltype(v.%s()){});"
                       % (f.name, f.name, tag, f.name))
                for kn, ce in self.kinds:
                    if kn == "skip":
                        continue
                    self.w("    v.%s(decltype(v.%s()){}, %s); ::sbepp::set_by_tag<%s>(v, decltype(v.%s()){}, %s);"
                           % (f.name, f.name, ce, tag, f.name, ce))
            elif k == "array" and self.arrays:
                self.w("    vh::touch_static_array_rw(v.%s());" % f.name)
        for g, sub in gsubs:
            self.w("    vh::touch_group_rw(v.%s());" % g.name)
            self.w("    %s_rw(v.%s().front(), c);" % (sub, g.name))
        for d in lvl.data:
            if self.arrays:
                self.w("    vh::touch_dynamic_array_rw(v.%s());" % d.name)
        self.w("}")
        return name

    def all_tag_paths(self):
        """('types'|'messages', name, ...) for every entity that has a tag"""
        out = []
        s = self.s

        def comp(c, path):
            for el in c.elements:
                out.append(path + [el.name])
                if isinstance(el, Composite):
                    comp(el, path + [el.name])
                elif isinstance(el, Enum):
                    for v in el.values:
                        out.append(path + [el.name, v.name])
                elif isinstance(el, Set):
                    for ch in el.choices:
                        out.append(path + [el.name, ch.name])
        for enc in s.type_order:
            out.append(["types", enc.name])
            if isinstance(enc, Composite):
                comp(enc, ["types", enc.name])
            elif isinstance(enc, Enum):
                for v in enc.values:
                    out.append(["types", enc.name, v.name])
            elif isinstance(enc, Set):
                for ch in enc.choices:
                    out.append(["types", enc.name, ch.name])

        def level(l, path):
            for mbr in l.fields + l.groups + l.data:
                out.append(path + [mbr.name])
            for g in l.groups:
                level(g, path + [g.name])
        for m in s.messages:
            out.append(["messages", m.name])
            level(m, ["messages", m.name])
        return out

    # ----------------------------------------------------------------- all
    def generate(self):
        s = self.s
        self.w("// generated by /verif/sa/harness.py from %s - never executed" % s.path)
        self.w('#include "vh_common.hpp"')
        self.w("#include <%s/%s.hpp>" % (s.name, s.name))
        self.w("namespace vh_%s {" % s.name)
        # public types
        tfns = []
        for enc in s.type_order:
            pub = "%s::types::%s" % (self.ns, enc.name)
            if isinstance(enc, Composite):
                fn = self.composite_fn(enc, [enc.name])
                tfns.append(("composite", pub, fn))
            elif isinstance(enc, Type):
                if enc.is_constant:
                    continue
                if enc.length == 1:
                    tfns.append(("optional" if enc.presence == "optional" else "scalar", pub, None))
                else:
                    tfns.append(("array", pub, None))
            elif isinstance(enc, Enum):
                tfns.append(("enum", pub, None))
            elif isinstance(enc, Set):
                tfns.append(("set", pub, enc))
        mfns = []
        for m in s.messages:
            fn = self.level_fn(m, [m.name])
            mfns.append((m, fn))
        # name anchors: canonical types of every public name (read from the AST
        # as record aliases by the analysers; also a reachability witness)
        self.w("struct names")
        self.w("{")
        for enc in s.type_order:
            pub = "%s::types::%s" % (self.ns, enc.name)
            if isinstance(enc, Composite) or (isinstance(enc, Type) and enc.length != 1 and not enc.is_constant):
                self.w("    using ty__%s = %s<char>;" % (enc.name, pub))
            elif not (isinstance(enc, Type) and enc.is_constant):
                self.w("    using ty__%s = %s;" % (enc.name, pub))
        for m in s.messages:
            self.w("    using msg__%s = %s::messages::%s<char>;" % (m.name, self.ns, m.name))
        self.w("    using tag__schema = %s::schema;" % self.ns)
        for path in self.all_tag_paths():
            self.w("    using tag__%s = %s::schema::%s;" % ("__".join(path), self.ns, "::".join(path)))
        self.w("};")
        # instantiation driver
        self.w("inline void drive(char* p, const char* cp, std::size_t n)")
        self.w("{")
        self.w("    ::sbepp::cursor<char> c; ::sbepp::cursor<const char> cc;")
        for kind, pub, x in tfns:
            if kind == "composite":
                self.w("    { %s<char> v{p, n}; %s_ro(v); %s_rw(v); %s<const char> w{cp, n}; %s_ro(w); %s<const char> conv{v}; (void)conv; }"
                       % (pub, x, x, pub, x, pub))
            elif kind in ("scalar", "optional"):
                self.w("    vh::touch_%s(%s{});" % (kind, pub))
            elif kind == "array" and self.arrays:
                self.w("    { %s<char> v{p, n}; vh::touch_static_array_ro(v); vh::touch_static_array_rw(v); %s<const char> w{cp, n}; vh::touch_static_array_ro(w); }"
                       % (pub, pub))
            elif kind == "enum":
                self.w("    { %s e{}; ::sbepp::visit<vh::probe_visitor>(e); (void)::sbepp::to_underlying(e); }" % pub)
            elif kind == "set":
                self.w("    { %s s{}; ::sbepp::visit<vh::probe_visitor>(s); (void)*s; (void)(s == s); (void)(s != s);" % pub)
                for ch in x.choices:
                    tag = self.tag_type([x.name, ch.name])
                    self.w("      (void)s.%s(); s.%s(true); (void)::sbepp::get_by_tag<%s>(s); ::sbepp::set_by_tag<%s>(s, true);"
                           % (ch.name, ch.name, tag, tag))
                self.w("    }")
        for m, fn in mfns:
            pub = "%s::messages::%s" % (self.ns, m.name)
            self.w("    {")
            self.w("        %s<char> v{p, n}; %s<const char> w{cp, n}; %s<const char> conv{v}; (void)conv;" % (pub, pub, pub))
            self.w("        (void)::sbepp::make_view<%s>(p, n); (void)::sbepp::make_const_view<%s>(p, n);" % (pub, pub))
            self.w("        %s_ro(v, c); %s_ro(v, cc); %s_ro(w, cc); %s_rw(v, c);" % (fn, fn, fn, fn))
            self.w("        (void)::sbepp::fill_message_header(v); (void)::sbepp::get_header(v); (void)::sbepp::get_header(w);")
            self.w("        (void)::sbepp::size_bytes(v, c); (void)::sbepp::size_bytes(w, cc);")
            self.w("        (void)::sbepp::size_bytes_checked(v, n); (void)::sbepp::size_bytes_checked(w, n);")
            self.w("        (void)::sbepp::init_cursor(v); (void)::sbepp::init_const_cursor(v); (void)::sbepp::init_cursor(w);")
            for g in m.groups:
                self.w("        (void)::sbepp::size_bytes_checked(v.%s(), n);" % g.name)
            self.w("    }")
        self.w("}")
        self.w("} // namespace")
        return "\n".join(self.out) + "\n"


def generate(schema, **kw):
    return Gen(schema, **kw).generate()

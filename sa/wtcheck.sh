#!/bin/bash
# usage: sa/wtcheck.sh <worktree with a change applied> C01 C17 ...   run quick checks against that tree (SBEPP_REPO), keep committed evidence
WT=$1; shift
for p in "$@"; do
  SBEPP_REPO=$WT python3 /verif/sa/run.py $p --tier quick > /verif/out/logs/wt_$(basename $WT)_$p.log 2>&1
  rc=$?
  echo "$p exit=$rc violations=$(grep -c ^VIOLATION /verif/out/logs/wt_$(basename $WT)_$p.log)"
  grep -E ": \[|^ANALYSIS-BROKEN" /verif/out/logs/wt_$(basename $WT)_$p.log | grep -v "^KNOWN" | head -4 | cut -c1-400
done
git -C /verif checkout -- evidence

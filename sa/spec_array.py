"""Per-operation rows for fixed arrays (C14) and <data> arrays (C13): exact
write footprint, length-prefix value, returned iterator, documented
preconditions with their strictness.  Expected forms are written from the
doxygen comments (vector-like semantics bounded by the buffer), not from the
code; compared with E2 summaries path by path."""
from common import *
import re
import rint
from symex import *
from libsum import *
from spec_group import strip_cast


def wr(p):
    return [(lin(e[1]), lin(e[2]), e[3] if len(e) > 3 else None) for e in p.events if e[0] == "write"]


def has_assert_conj(p, op, f):
    for e in asserts(p):
        if (op, lin(f)) in conjuncts(e[1]):
            return True
    return False


def assert_texts(p):
    return [show(e[1]) for e in asserts(p) if "SBEPP_SIZE_CHECK" not in (e[3] if len(e) > 3 else ())]


class R:
    def __init__(self, chk, lib, rule):
        self.chk, self.lib, self.rule = chk, lib, rule

    def done(self, f, row, errs, extra=""):
        errs = [e for e in errs if e]
        key = "%s|%s" % (row, extra)
        if errs:
            self.chk.violation(self.rule, row, where(f), "row %s, %s [%s]: %s" % (row, f["qn"][:170], self.lib.label, "; ".join(errs[:4])))
        else:
            self.chk.ok(self.rule, key, {"row": row, "function": f["qn"][:130]})


def writes_are(p, want):
    """want: list of (addr, len) in order"""
    got = [(a, n) for a, n, _ in wr(p)]
    want = [(lin(a), lin(n)) for a, n in want]
    if got != want:
        return "writes %s, expected exactly %s" % ([(show(a), show(n)) for a, n in got], [(show(a), show(n)) for a, n in want])
    return None


UNBOUNDED_SCANNERS = ("string_length", "strlen", "length", "rawmemchr")


def check_array_scans_bounded(chk, lib):
    """ARR.bounded: fixed-length arrays need not contain a NUL, so no operation of an array reference may scan *its own
    storage* with an unbounded scanner (strlen-like functions) - in any arm, including the `is_constant_evaluated()` arms
    the E2 rows do not follow (they analyse the run-time arm).  C-string arguments (`const char* str`) may be measured
    that way: that is their contract."""
    n = 0
    for tpl in ("sbepp::detail::static_array_ref", "sbepp::detail::dynamic_array_ref"):
        seen = set()
        for (c, name), fs in lib.by_name.items():
            if c != tpl:
                continue
            for f in fs[:1]:
                if f.get("body") is None or (name, f.get("line")) in seen:
                    continue
                seen.add((name, f.get("line")))
                for x in walk(f["body"]):
                    cal = x.get("callee") or {}
                    if x.get("k") not in ("CallExpr", "CXXMemberCallExpr") or cal.get("name") not in UNBOUNDED_SCANNERS:
                        continue
                    if cal.get("name") == "length" and "char_traits" not in (cal.get("base") or cal.get("cls") or ""):
                        continue
                    n += 1
                    own = False
                    for a in x.get("args") or []:
                        for y in walk(a):
                            if (y.get("callee") or {}).get("name") in ("data", "begin", "data_checked", "data_unchecked", "cbegin") or y.get("k") == "CXXThisExpr":
                                own = True
                    key = "%s.%s|%s" % (tpl.split("::")[-1], name, cal.get("name"))
                    if own:
                        chk.violation("ARR.bounded", key, where(f),
                                      "%s::%s measures the array's own storage with %s(...), an unbounded scan: an array without a NUL "
                                      "makes it read past the last element (in constant evaluation: a wrong length or no constant "
                                      "expression at all)" % (tpl.split("::")[-1], name, cal.get("base") or cal.get("name")))
                    else:
                        chk.ok("ARR.bounded", key + "#%s" % x.get("l"), {"function": name, "scanner": cal.get("name"), "argument": "caller's C string"})
    # a sized argument (string_view, span, container: anything with data() and size()) must not be reduced to its data()
    # pointer: the callee then has to guess the length (a C-string scan reads past a view that is not NUL-terminated at
    # size(), and stops early at an embedded NUL)
    m = 0
    for f in lib.facts["functions"]:
        if not f.get("file", "").endswith("sbepp.hpp") or f.get("body") is None:
            continue
        owner = f.get("cls_tpl") or f.get("cls") or ""
        if "static_array_ref" not in owner and "dynamic_array_ref" not in owner:
            continue
        params = {p_.get("name"): (p_.get("t") or "") for p_ in f.get("params") or [] if p_.get("name")}
        used = {}
        for x in walk(f["body"]):
            cal = x.get("callee") or {}
            nm = cal.get("name") or x.get("member")
            obj = x.get("obj") if x.get("obj") is not None else x.get("base")
            if nm in ("data", "size", "length", "end", "cend", "begin") and isinstance(obj, dict):
                o = obj
                while o is not None and o.get("k") in ("ImplicitCastExpr", "ParenExpr", "MemberExpr") and o.get("k") != "DeclRefExpr":
                    o = o.get("sub") or o.get("base")
                    if o is None:
                        break
                if o is not None and o.get("k") == "DeclRefExpr" and o.get("dk") == "ParmVar" and o.get("name") in params:
                    used.setdefault(o["name"], set()).add(nm)
        for pn, ms in used.items():
            if "data" in ms and "const char *" not in params[pn]:
                m += 1
                key = "%s|%s" % ((f.get("base") or f.get("qn") or "")[:90], pn)
                if not (ms & {"size", "length", "end", "cend"}):
                    chk.violation("ARR.bounded", "sized-argument:" + key.split("<")[0] + ":" + f["name"], where(f),
                                  "%s takes the sized argument `%s` (%s) and uses only its data() pointer: its length is dropped and "
                                  "re-measured by the callee" % ((f.get("qn") or "")[:120], pn, params[pn][:60]))
                else:
                    chk.ok("ARR.bounded", "sized-argument:" + key, {"uses": sorted(ms)})
    chk.ok("ARR.bounded", "scanned", {"unbounded scanner calls in array references": n, "sized arguments reduced to data()": m}, nontrivial=True)
    return n


SHIFTERS = ("copy_backward", "move_backward", "copy", "move", "memmove", "rotate", "fill_n", "fill")


def check_value_aliasing(chk, lib):
    """ARR.alias: `a.insert(pos, a[j])` is valid for a vector.  An operation that shifts or overwrites elements before it
    stores its `value` argument must own a copy of it: a `const value_type&` parameter that is read after the first
    shifting call designates a slot whose contents have already been moved."""
    n = 0
    seen = set()
    for f in lib.facts["functions"]:
        if not f.get("file", "").endswith("sbepp.hpp") or f.get("body") is None:
            continue
        owner = f.get("cls_tpl") or f.get("cls") or ""
        if "dynamic_array_ref" not in owner and "static_array_ref" not in owner:
            continue
        for prm in f.get("params") or []:
            t = (prm.get("t") or "")
            if not t.rstrip().endswith("&") or "value_type" not in t and not re.search(r"const (char|signed char|unsigned char|std::byte|unsigned short|short|int|long|unsigned int|unsigned long) &", t):
                continue
            did, nm = prm.get("did"), prm.get("name")
            order = [x for x in walk(f["body"])]
            first_shift = None
            last_use = None
            for i, x in enumerate(order):
                c = x.get("callee") or {}
                if first_shift is None and c.get("name") in SHIFTERS and (c.get("base") or "").startswith("std::"):
                    first_shift = i
                if x.get("k") == "DeclRefExpr" and x.get("dk") == "ParmVar" and x.get("name") == nm:
                    last_use = i
            k = (f["name"], f.get("line"), nm)
            if k in seen:
                continue
            seen.add(k)
            n += 1
            key = "%s.%s|%s" % (owner.split("::")[-1].split("<")[0], f["name"], nm)
            if first_shift is not None and last_use is not None and last_use > first_shift:
                chk.violation("ARR.alias", key, where(f),
                              "%s takes `%s` by reference (%s) and reads it after it has shifted / overwritten elements: for an "
                              "argument that refers to an element of the same array (valid for a vector) the wrong value is stored"
                              % ((f.get("qn") or "")[:120], nm, t))
            else:
                chk.ok("ARR.alias", key + "#%s" % f.get("line"), {"param": t})
    chk.ok("ARR.alias", "scanned", {"reference parameters of element type": n}, nontrivial=True)
    return n


def check_overlapping_copies(chk, lib):
    """ARR.overlap: `std::copy(first, last, d_first)` requires d_first outside [first, last).  Shifting elements to the
    right inside one array (d_first = first + k) is an overlapping forward copy: it happens to work where the library
    lowers it to memmove and duplicates the first k elements everywhere else (constant evaluation, non-trivial
    iterators); the shift has to be a copy_backward / move_backward."""
    n = 0
    seen = set()
    for f in lib.facts["functions"]:
        if not f.get("file", "").endswith("sbepp.hpp") or f.get("body") is None:
            continue
        owner = f.get("cls_tpl") or f.get("cls") or ""
        if "dynamic_array_ref" not in owner and "static_array_ref" not in owner:
            continue
        for x in walk(f["body"]):
            c = x.get("callee") or {}
            if c.get("name") not in ("copy", "move", "copy_n") or not (c.get("base") or "").startswith("std::") or len(x.get("args") or []) < 3:
                continue
            k = (f["name"], x.get("l"))
            if k in seen:
                continue
            seen.add(k)
            n += 1
            a = x["args"]
            src = gen_text_of(a[0])
            dst_node = a[2]
            while dst_node.get("k") in ("ImplicitCastExpr", "ParenExpr") and dst_node.get("sub") is not None:
                dst_node = dst_node["sub"]
            shifted = dst_node.get("k") in ("BinaryOperator", "CXXOperatorCallExpr") and dst_node.get("op") == "+" and \
                src and src in (gen_text_of(dst_node.get("lhs") or (dst_node.get("args") or [None])[0]), gen_text_of(dst_node.get("rhs")))
            key = "%s.%s|copy#%s" % (owner.split("::")[-1].split("<")[0], f["name"], x.get("l"))
            if shifted:
                chk.violation("ARR.overlap", "%s.%s|copy" % (owner.split("::")[-1].split("<")[0], f["name"]), where(f),
                              "%s shifts elements to the right with std::%s(%s, ..., %s): the destination lies inside the source range "
                              "(precondition of std::copy); in constant evaluation the first elements are duplicated instead of the "
                              "tail being moved" % ((f.get("qn") or "")[:110], c.get("name"), src, gen_text_of(dst_node)))
            else:
                chk.ok("ARR.overlap", key, {"source": src, "destination": gen_text_of(dst_node)[:40]})
    chk.ok("ARR.overlap", "scanned", {"forward copies in array references": n}, nontrivial=True)
    return n


def gen_text_of(n):
    import gen
    return gen.expr_text(n, 0, None) if isinstance(n, dict) else ""


def check_string_length(chk, lib):
    """the constant-evaluation arm of detail::string_length (a hand-written strlen; the run-time arm calls std::strlen):
    count characters up to, not including, the first NUL"""
    import gen
    import gguard
    r = R(chk, lib, "ARR.static")
    fs = [f for f in lib.by_name.get(("", "string_length"), []) if (f.get("base") or "") == "sbepp::detail::string_length"]
    for f in fs[:1]:
        errs = []
        ls = loop_shape(f)
        loops = [n for n in walk(f["body"]) if n.get("k") == "ForStmt"]
        if loops:
            inc = ls[0][2].replace("str++", "++str").replace("length++", "++length")
            if ls[0][1] not in ("*str != 0", "0 != *str") or "++str" not in inc or "++length" not in inc:
                errs.append("the constant-evaluation loop must be `for(; *str != 0; str++, length++)`, found %s" % ls)
            rets = [gguard.opt_norm(gen.expr_text(n["sub"], 0, f)) for n in walk(f["body"]) if n.get("k") == "ReturnStmt" and n.get("sub") is not None]
            if "length" not in rets or not any(x.startswith("strlen(") for x in rets):
                errs.append("must return the counted length / std::strlen(str); returns %s" % rets)
            inits = [n for n in walk(f["body"]) if n.get("k") == "VarDecl" and n.get("name") == "length"]
            if not inits or gen.expr_text(inits[0].get("init"), 0, f) not in ("{}", "0"):
                errs.append("length must start at 0")
        r.done(f, "static.string_length", errs, "detail")
    return len(fs)


def check_static(chk, lib, limit=None):
    check_string_length(chk, lib)
    r = R(chk, lib, "ARR.static")
    tpl = "sbepp::detail::static_array_ref"
    classes = sorted({f["cls"] for (c, n), fs in lib.by_name.items() if c == tpl for f in fs})
    seenN = {}
    for cls in classes:
        rec = lib.eng.record(cls)
        ta = (rec or {}).get("targs") or []
        if len(ta) < 3 or not ta[2].startswith("#"):
            continue
        N = int(ta[2][1:])
        byte, val = ta[0], ta[1]
        k = (N, byte, val)
        seenN[k] = seenN.get(k, 0) + 1
        if seenN[k] > 1 or (limit and len(seenN) > limit):
            continue
        A = sym("this.begin")
        tag = "N=%d,%s,%s" % (N, byte, val)

        def m(name, pred=None):
            out = []
            for f in lib.fns(tpl, name):
                if f.get("cls") == cls and (pred is None or pred(f)):
                    out.append(f)
            return out
        esz = type_size(val, lib.eng) or 1
        # element accessors: which element the returned lvalue / pointer designates
        for name, want_addr in (("front", A), ("back", A + (N - 1) * esz), ("begin", A), ("end", A + N * esz), ("data", A)):
            if N == 0 and name in ("front", "back"):
                continue
            for f in m(name):
                errs = []
                for p in lib.summary(f).live:
                    got = p.ret.addr if isinstance(p.ret, MemLoc) else p.ret
                    if not isinstance(got, Lin) or got != want_addr:
                        errs.append("designates %s, expected %s" % (show(got) if got is not None else None, show(want_addr)))
                    if wr(p):
                        errs.append("writes")
                r.done(f, "static." + name, errs, tag)
        for f in m("operator[]"):
            errs = []
            for p in lib.summary(f).live:
                got = p.ret.addr if isinstance(p.ret, MemLoc) else p.ret
                if not isinstance(got, Lin) or got != A + sym("pos") * esz:
                    errs.append("designates %s, expected begin + pos" % (show(got) if got is not None else None))
                if not has_assert_conj(p, "<", sym("pos") - N):
                    errs.append("precondition pos < size() is not asserted (asserts: %s)" % assert_texts(p))
            r.done(f, "static.operator[]", errs, tag)
        for name, want in (("size", N), ("max_size", N), ("empty", 1 if N == 0 else 0)):
            for f in m(name):
                p = lib.summary(f).live[0]
                errs = []
                if not isinstance(p.ret, Lin) or p.ret != Lin.const(want):
                    errs.append("returns %s, expected %d" % (show(p.ret) if p.ret is not None else None, want))
                r.done(f, "static." + name, errs, tag)
        for f in m("strlen"):
            s = lib.summary(f)
            errs = []
            for p in s.live:
                rd = [e for e in p.events if e[0] == "read"]
                if len(rd) != 1 or lin(rd[0][1]) != A or lin(rd[0][2]) != Lin.const(N):
                    errs.append("must scan exactly [begin, begin+%d): reads %s" % (N, [(show(e[1]), show(e[2])) for e in rd]))
                mc = Lin.atom(("memchr", A, Lin.const(0), Lin.const(N)))
                found = [t for c, t in p.pc if lin(c) == cmp_term("!=", mc, 0)]
                if not found:
                    errs.append("result does not depend on the first NUL found by memchr(begin, 0, %d)" % N)
                elif found[0] and (p.ret is None or lin(p.ret) != mc - A):
                    errs.append("NUL found: returns %s, expected its index" % show(p.ret))
                elif not found[0] and (p.ret is None or lin(p.ret) != Lin.const(N)):
                    errs.append("no NUL: returns %s, expected %d" % (show(p.ret), N))
                if wr(p):
                    errs.append("strlen writes")
            r.done(f, "static.strlen", errs, tag)
        for f in m("strlen_r"):
            s = lib.summary(f)
            p = s.live[0]
            ev = [e for e in p.events if e[0] == "extcall" and e[1] == "std::find_if"]
            errs = []
            want_args = (("ctor", "std::reverse_iterator<%s *>" % rint.clean(val if byte == "char" else "const " + val if "const" in byte else val), (A + N,)),)
            if len(ev) != 1:
                errs.append("expected one find_if over the reversed array")
            else:
                a0, a1 = ev[0][3][0], ev[0][3][1]
                if not (isinstance(a0, tuple) and a0[0] == "ctor" and a0[2] == (A + N,) and isinstance(a1, tuple) and a1[2] == (A,)):
                    errs.append("find_if range is (%s, %s), expected (rbegin = reverse(begin+%d), rend = reverse(begin))" % (show_atom(a0), show_atom(a1), N))
            # the predicate given to find_if: "is not NUL"
            lams = [g for g in lib.eng.fns.values() if g.get("lambda") and g["file"] == f["file"]
                    and f["line"] <= g["line"] <= (f.get("endline") or f["line"]) and g.get("body") is not None and not g.get("dependent")]
            if not lams:
                errs.append("predicate lambda of strlen_r not found")
            else:
                lp = lib.summary(lams[0]).live
                pn = (lams[0].get("params") or [{}])[0].get("name", "value")
                if len(lp) != 1 or not isinstance(lp[0].ret, Lin) or lp[0].ret != cmp_term("!=", sym(pn), 0):
                    errs.append("find_if predicate returns %s, expected value != 0" % (show(lp[0].ret) if lp and lp[0].ret is not None else None))
            ret = p.ret
            okr = isinstance(ret, Lin) and ret.k == N and len(ret.terms) == 1 and ret.terms[0][1] == -1
            if not okr:
                errs.append("returns %s, expected size() - (last_non_null - rbegin())" % show(ret))
            r.done(f, "static.strlen_r", errs, tag)
        for f in m("assign_string", lambda f: (f.get("params") or [{}])[0].get("t", "").endswith("char *")):
            s = lib.summary(f)
            L = Lin.atom(("strlen", sym("str")))
            errs = []
            for p in s.live:
                mode = None
                for c, t in p.pc:
                    if lin(c) == cmp_term("==", sym("eos_mode"), 2):
                        mode = "all" if t else mode
                    if lin(c) == cmp_term("==", sym("eos_mode"), 1) and t:
                        mode = "single"
                if mode is None:
                    mode = "none"
                if not has_assert_conj(p, "!=", sym("str")):
                    errs.append("missing assert(str != nullptr)")
                if not has_assert_conj(p, "<=", L - N):
                    errs.append("precondition must be length <= size() (non-strict); asserts: %s" % assert_texts(p))
                w = [(a, n) for a, n, _ in wr(p)]
                if mode == "all":
                    want = [(A, L), (A + L, Lin.const(N) - L)]
                elif mode == "single":
                    full = any(lin(c) == cmp_term("!=", L, N) and not t for c, t in p.pc)
                    want = [(A, L)] if full else [(A, L), (A + L, Lin.const(1))]
                else:
                    want = [(A, L)]
                e1 = writes_are(p, want)
                if e1:
                    errs.append("eos mode %s: %s" % (mode, e1))
                if p.ret is None or lin(p.ret) != A + L:
                    errs.append("returns %s, expected begin + length" % show(p.ret))
            if len(s.live) < 4:
                errs.append("expected paths for eos modes all / single (room or full) / none, found %d" % len(s.live))
            r.done(f, "static.assign_string", errs, tag)
        for f in m("fill"):
            p = lib.summary(f).live[0]
            r.done(f, "static.fill", [writes_are(p, [(A, Lin.const(N))])], tag)
        for f in m("assign"):
            ps = f.get("params") or []
            p = lib.summary(f).live[0]
            if len(ps) == 2 and ps[0]["name"] == "count":
                cnt = sym("count")
                errs = [writes_are(p, [(A, cnt)])]
                if not has_assert_conj(p, "<=", cnt - N):
                    errs.append("precondition must be count <= size() (non-strict); asserts: %s" % assert_texts(p))
                if p.ret is None or lin(p.ret) != A + cnt:
                    errs.append("returns %s" % show(p.ret))
                r.done(f, "static.assign(n,v)", errs, tag)
            elif len(ps) == 2 and ps[0]["name"] == "first" and ps[0]["t"].endswith("*"):
                d = sym("last") - sym("first")
                errs = [writes_are(p, [(A, d)])]
                if not any((op, strip_cast(f2)) == ("<=", d - N) for e in asserts(p) for op, f2 in conjuncts(e[1])):
                    errs.append("must assert copied length <= size(); asserts: %s" % assert_texts(p))
                if p.ret is None or lin(p.ret) != A + d:
                    errs.append("returns %s" % show(p.ret))
                r.done(f, "static.assign(first,last)", errs, tag)
        for f in m("operator[]"):
            p = lib.summary(f).live[0]
            errs = []
            if not has_assert_conj(p, "<", sym("pos") - N):
                errs.append("must assert pos < size() (strict); asserts: %s" % assert_texts(p))
            rv = p.ret
            if not isinstance(rv, MemLoc) or lin(rv.addr) != A + sym("pos"):
                errs.append("designates %s, expected begin + pos" % (show(rv.addr) if isinstance(rv, MemLoc) else show(rv)))
            r.done(f, "static.operator[]", errs, tag)
        for nm, want in (("begin", A), ("end", A + N), ("data", A)):
            for f in m(nm):
                p = lib.summary(f).live[0]
                errs = []
                if p.ret is None or not isinstance(p.ret, Lin) or p.ret != want:
                    errs.append("%s() = %s, expected %s" % (nm, show(p.ret), show(want)))
                r.done(f, "static." + nm, errs, tag)
    return len(seenN)


def loop_shape(fn):
    """(init text, condition text, increment text) of every for-loop of fn, in gguard's normal form"""
    import gen
    import gguard
    out = []
    for n in walk(fn["body"]):
        if n.get("k") == "ForStmt":
            init = n.get("init") or {}
            it = ""
            for d in init.get("decls") or []:
                it = "%s = %s" % (d.get("name"), gguard.opt_norm(gen.expr_text(d.get("init"), 0, fn)) if d.get("init") is not None else "")
            cond = " && ".join(sorted(gguard.norm_cond(n["cond"], True, fn))) if n.get("cond") is not None else ""
            inc = gguard.opt_norm(gen.expr_text(n["inc"], 0, fn)) if n.get("inc") is not None else ""
            out.append((it, cond, inc))
    return out


def check_dynamic(chk, lib, limit=None):
    r = R(chk, lib, "ARR.data")
    tpl = "sbepp::detail::dynamic_array_ref"
    classes = sorted({f["cls"] for (c, n), fs in lib.by_name.items() if c == tpl for f in fs})
    done = 0
    seen = set()
    for cls in classes:
        rec = lib.eng.record(cls)
        ta = (rec or {}).get("targs") or []
        if len(ta) < 4 or "const" in ta[0]:
            continue
        lenf = lib.method(ta[2], "value", nparams=0)
        A = sym("this.begin")
        # size of the length prefix and its byte order from the class arguments
        szf = [f for f in lib.fns(tpl, "size") if f.get("cls") == cls]
        if not szf:
            continue
        LEN = lib.summary(szf[0]).live[0].ret
        if not isinstance(LEN, Lin) or len(LEN.terms) != 1 or LEN.terms[0][0][0] != "wire":
            chk.violation("ARR.data", "data.size", where(szf[0]), "size() of %s is %s, expected the length prefix read at begin" % (cls[-90:], show(LEN)))
            continue
        wa = LEN.terms[0][0]
        S = wa[2]
        rev = wa[3]
        want_rev = (ta[3].split("::")[-1] != "little") and S > 1
        sig = (S, rev, ta[1])
        if sig in seen or (limit and done >= limit):
            continue
        seen.add(sig)
        done += 1
        tag = "len=%d,%s,%s" % (S, "swapped" if rev else "native", ta[1])
        if wa[1] != A or rev != want_rev:
            chk.violation("ARR.data", "data.size", where(szf[0]), "size() reads %s, expected the %d-byte prefix at begin in %s order" % (show(LEN), S, ta[3]))
            continue

        def enc(v):
            v = lin(v)
            if rev and not v.is_const():
                return Lin.atom(("bswap", S, v))
            if rev and v.is_const():
                return Lin.const(int.from_bytes((v.k & ((1 << (8 * S)) - 1)).to_bytes(S, "little"), "big"))
            return v

        def m(name, pred=None):
            return [f for f in lib.fns(tpl, name) if f.get("cls") == cls and (pred is None or pred(f))]

        def prefix_is(p, val, errs, what):
            ws = [(a, n, d) for a, n, d in wr(p) if a == A and n == Lin.const(S)]
            if len(ws) != 1:
                errs.append("%s must write the length prefix exactly once (writes: %s)" % (what, [(show(a), show(n)) for a, n, _ in wr(p)]))
                return
            d = ws[0][2]
            if not isinstance(d, Lin) or strip_cast(unbswap(d, S, rev)) != lin(val):
                errs.append("%s stores length %s, expected %s" % (what, show(d), show(val)))
        B = A + S          # payload start
        for f in m("begin") + m("data"):
            p = lib.summary(f).live[0]
            r.done(f, "data." + f["name"], ["%s() = %s, expected begin + %d" % (f["name"], show(p.ret), S) if (not isinstance(p.ret, Lin) or p.ret != B) else None], tag)
        for f in m("end"):
            p = lib.summary(f).live[0]
            r.done(f, "data.end", ["end() = %s" % show(p.ret) if (not isinstance(p.ret, Lin) or p.ret != B + LEN) else None], tag)
        for f in m("operator()", lambda f: (f.get("params") or [{}])[0].get("t", "").endswith("size_bytes_tag")):
            p = lib.summary(f).live[0]
            r.done(f, "data.size_bytes", ["size_bytes = %s, expected %d + size()" % (show(p.ret), S) if (p.ret is None or lin(p.ret) != LEN + S) else None], tag)
        for f in m("operator[]"):
            p = lib.summary(f).live[0]
            errs = []
            if not has_assert_conj(p, "<", sym("pos") - LEN):
                errs.append("must assert pos < size(); asserts: %s" % assert_texts(p))
            rv = p.ret
            if not isinstance(rv, MemLoc) or lin(rv.addr) != B + sym("pos"):
                errs.append("designates %s" % (show(rv.addr) if isinstance(rv, MemLoc) else show(rv)))
            r.done(f, "data.operator[]", errs, tag)
        for name, want_addr in (("front", B), ("back", B + LEN - 1)):
            for f in m(name):
                errs = []
                for p in lib.summary(f).live:
                    rv = p.ret
                    if not isinstance(rv, MemLoc) or lin(rv.addr) != want_addr:
                        errs.append("designates %s, expected %s" % (show(rv.addr) if isinstance(rv, MemLoc) else show(rv), show(want_addr)))
                    # documented precondition: !empty()
                    if not (has_assert_conj(p, "!=", LEN) or has_assert_conj(p, "<", -LEN) or any("!=" in t or "cmp(<" in t for t in assert_texts(p))):
                        errs.append("precondition !empty() is not asserted (asserts: %s)" % assert_texts(p))
                r.done(f, "data." + name, errs, tag)
        for f in m("empty"):
            p = lib.summary(f).live[0]
            r.done(f, "data.empty", ["empty() = %s, expected size() == 0" % show(p.ret) if (not isinstance(p.ret, Lin) or p.ret != cmp_term("==", LEN, 0)) else None], tag)
        for f in m("resize"):
            ps = f.get("params") or []
            cnt = sym("count")
            if len(ps) == 2 and "default_init" in ps[1]["t"]:
                p = lib.summary(f).live[0]
                errs = []
                prefix_is(p, cnt, errs, "resize(n, default_init)")
                if len(wr(p)) != 1:
                    errs.append("must not touch the payload")
                cs = []
                for e in size_checks(p):
                    cs += conjuncts(e[1])
                if ("<=", A + S + cnt - sym("this.end")) not in cs:
                    errs.append("SIZE_CHECK must cover prefix + count bytes")
                r.done(f, "data.resize(n,default_init)", errs, tag)
            else:
                s = lib.summary(f)
                errs = []
                # the loop that initialises the new elements runs over exactly [old size, count): E2 abstracts loop
                # bounds, so the range is read from the loop header
                ls = loop_shape(f)
                if len(ls) != 1 or not (ls[0][0].startswith("i = ") and "size()" in ls[0][0] and ls[0][1] in ("count != i", "i < count") and ls[0][2] in ("i++", "++i")):
                    errs.append("new elements must be initialised by one loop `for(i = old size; i != count; i++)`, found %s" % ls)
                for p in s.live:
                    prefix_is(p, cnt, errs, "resize")
                    others = [(a, n) for a, n, _ in wr(p) if a != A]
                    for a, n in others:
                        # element stores at payload + i, one byte each
                        d = a - B
                        if n != Lin.const(1) or not all(at[0] == "sym" for at in d.atoms()):
                            errs.append("unexpected write [%s,+%s)" % (show(a), show(n)))
                r.done(f, "data.resize", errs, tag)
        for f in m("clear"):
            p = lib.summary(f).live[0]
            errs = []
            prefix_is(p, Lin.const(0), errs, "clear")
            if len(wr(p)) != 1:
                errs.append("clear must write only the prefix")
            r.done(f, "data.clear", errs, tag)
        for f in m("push_back"):
            p = lib.summary(f).live[0]
            errs = []
            prefix_is(p, LEN + 1, errs, "push_back")
            if (B + LEN, Lin.const(1)) not in [(a, n) for a, n, _ in wr(p)]:
                errs.append("element must be stored at payload + old size; writes %s" % [(show(a), show(n)) for a, n, _ in wr(p)])
            if len(wr(p)) != 2:
                errs.append("push_back writes %d ranges, expected prefix + one element" % len(wr(p)))
            r.done(f, "data.push_back", errs, tag)
        for f in m("pop_back"):
            p = lib.summary(f).live[0]
            errs = []
            prefix_is(p, LEN - 1, errs, "pop_back")
            if not any(lin(e[1]) == truthy(LEN) for e in asserts(p)):
                errs.append("must assert !empty(); asserts: %s" % assert_texts(p))
            if len(wr(p)) != 1:
                errs.append("pop_back must write only the prefix")
            r.done(f, "data.pop_back", errs, tag)
        for f in m("erase"):
            ps = f.get("params") or []
            p = lib.summary(f).live[0]
            errs = []
            if len(ps) == 1:
                pos = sym("pos")
                if not (has_assert_conj(p, "<=", B - pos) and has_assert_conj(p, "<", pos - B - LEN)):
                    errs.append("precondition must be begin() <= pos < end(); asserts: %s" % assert_texts(p))
                if (pos, B + LEN - pos - 1) not in [(a, n) for a, n, _ in wr(p)]:
                    errs.append("tail must move to pos: writes %s" % [(show(a), show(n)) for a, n, _ in wr(p)])
                prefix_is(p, LEN - 1, errs, "erase(pos)")
                if p.ret is None or lin(p.ret) != pos:
                    errs.append("returns %s, expected pos" % show(p.ret))
                r.done(f, "data.erase(pos)", errs, tag)
            else:
                fi, la = sym("first"), sym("last")
                if not (has_assert_conj(p, "<=", B - fi) and has_assert_conj(p, "<=", la - B - LEN)):
                    errs.append("precondition must be begin() <= first and last <= end() (erasing up to end() is valid for a vector); "
                                "asserts: %s" % assert_texts(p))
                if (fi, B + LEN - la) not in [(a, n) for a, n, _ in wr(p)]:
                    errs.append("tail [last,end) must move to first: writes %s" % [(show(a), show(n)) for a, n, _ in wr(p)])
                prefix_is(p, LEN - la + fi, errs, "erase(first,last)")
                if p.ret is None or lin(p.ret) != fi:
                    errs.append("returns %s, expected first" % show(p.ret))
                r.done(f, "data.erase(first,last)", errs, tag)
        for f in m("insert"):
            ps = f.get("params") or []
            names = [x["name"] for x in ps]
            try:
                s = lib.summary(f)
            except AnalysisBroken:
                continue
            p = s.live[0]
            pos = sym("pos")
            errs = []
            if not (has_assert_conj(p, "<=", B - pos) and has_assert_conj(p, "<=", pos - B - LEN)):
                errs.append("precondition must be begin() <= pos <= end(); asserts: %s" % assert_texts(p))
            if names == ["pos", "value"]:
                prefix_is(p, LEN + 1, errs, "insert(pos,v)")
                w = [(strip_cast(a), strip_cast(n)) for a, n, _ in wr(p) if a != A]
                if (pos + 1, B + LEN - pos) not in w or (pos, Lin.const(1)) not in w:
                    errs.append("tail must move up by one and the value be stored at pos: writes %s" % [(show(a), show(n)) for a, n in w])
                if p.ret is None or lin(p.ret) != pos:
                    errs.append("returns %s" % show(p.ret))
                r.done(f, "data.insert(pos,v)", errs, tag)
            elif names == ["pos", "first", "last"] and ps[1]["t"].endswith("*"):
                d = sym("last") - sym("first")
                prefix_is(p, LEN + d, errs, "insert(pos,first,last)")
                w = [(strip_cast(a), strip_cast(n)) for a, n, _ in wr(p) if a != A]
                if (pos + d, B + LEN - pos) not in w or (pos, d) not in w:
                    errs.append("tail must move up by last-first and the range be stored at pos: writes %s" % [(show(a), show(n)) for a, n in w])
                if p.ret is None or lin(p.ret) != pos:
                    errs.append("returns %s" % show(p.ret))
                r.done(f, "data.insert(pos,first,last)", errs, tag)
            elif names == ["pos", "count", "value"]:
                cnt = sym("count")
                prefix_is(p, LEN + cnt, errs, "insert(pos,n,v)")
                w = [(strip_cast(a), strip_cast(n)) for a, n, _ in wr(p) if a != A]
                if (pos + cnt, B + LEN - pos) not in w or (pos, cnt) not in w:
                    errs.append("tail must move up by count and count values be stored at pos: writes %s" % [(show(a), show(n)) for a, n in w])
                r.done(f, "data.insert(pos,n,v)", errs, tag)
        for f in m("insert_impl"):
            ps = f.get("params") or []
            if len(ps) == 4 and ps[3]["t"].endswith("input_iterator_tag"):
                ls = loop_shape(f)
                calls = [(x.get("callee") or {}).get("name") for x in walk(f["body"]) if x.get("callee")]
                errs = []
                inc = ls[0][2].replace("op++(first)", "++first").replace("op++(out)", "++out").replace("first++", "++first").replace("out++", "++out") if ls else ""
                if len(ls) != 1 or ls[0][1] not in ("first != last", "last != first") or "++first" not in inc or "++out" not in inc:
                    errs.append("single-pass insertion must loop `for(; first != last; ++first, ++out)`, found %s" % ls)
                if "insert" not in calls:
                    errs.append("each element must be inserted through insert(out, *first)")
                r.done(f, "data.insert_impl(input)", errs, tag)
        for f in m("assign"):
            ps = f.get("params") or []
            names = [x["name"] for x in ps]
            p = lib.summary(f).live[0]
            errs = []
            if names == ["count", "value"]:
                cnt = sym("count")
                prefix_is(p, cnt, errs, "assign(n,v)")
                if (B, cnt) not in [(a, n) for a, n, _ in wr(p)]:
                    errs.append("payload [begin, +count) must be filled: writes %s" % [(show(a), show(n)) for a, n, _ in wr(p)])
                r.done(f, "data.assign(n,v)", errs, tag)
            elif names == ["first", "last"] and ps[0]["t"].endswith("*"):
                d = sym("last") - sym("first")
                prefix_is(p, d, errs, "assign(first,last)")
                if (B, d) not in [(a, n) for a, n, _ in wr(p)]:
                    errs.append("payload must receive the range: writes %s" % [(show(a), show(n)) for a, n, _ in wr(p)])
                r.done(f, "data.assign(first,last)", errs, tag)
        for f in m("assign_string"):
            p = lib.summary(f).live[0]
            L = Lin.atom(("strlen", sym("str")))
            errs = []
            prefix_is(p, L, errs, "assign_string")
            if (B, L) not in [(strip_cast(a), strip_cast(n)) for a, n, _ in wr(p)]:
                errs.append("payload must receive the string: writes %s" % [(show(a), show(n)) for a, n, _ in wr(p)])
            if not has_assert_conj(p, "!=", sym("str")):
                errs.append("missing assert(str != nullptr)")
            r.done(f, "data.assign_string", errs, tag)
    return done


def unbswap(d, S, rev):
    if not rev:
        return d
    d = lin(d)
    if d.is_const():
        return Lin.const(int.from_bytes((d.k & ((1 << (8 * S)) - 1)).to_bytes(S, "big"), "little"))
    if len(d.terms) == 1 and d.terms[0][0][0] == "bswap":
        return d.terms[0][0][2]
    return d

// Common part of the instantiation harness.  Never executed: it exists so
// that clang instantiates every library template at the types a schema spans
// and the fact extractor can read the instantiated bodies.  C++11 compatible.
#pragma once
#include <sbepp/sbepp.hpp>
#include <cstddef>
#include <iterator>
#include <type_traits>
#include <utility>

namespace sbepp
{
// checked configurations require a handler definition from the client
[[noreturn]] void assertion_failed(
    char const* expr, char const* function, char const* file, long line);
}

namespace vh
{
// accepts every visiting callback; recurses so children visitors instantiate
struct probe_visitor
{
    template<typename T, typename Cursor, typename Tag>
    void on_message(T m, Cursor& c, Tag)
    {
        ::sbepp::visit_children(m, c, *this);
    }
    template<typename T, typename Cursor, typename Tag>
    bool on_group(T g, Cursor& c, Tag)
    {
        ::sbepp::visit_children(g, c, *this);
        return false;
    }
    template<typename T, typename Cursor>
    bool on_entry(T e, Cursor& c)
    {
        ::sbepp::visit_children(e, c, *this);
        return false;
    }
    template<typename T, typename Tag>
    bool on_data(T, Tag)
    {
        return false;
    }
    template<typename T, typename Tag>
    bool on_field(T, Tag)
    {
        return false;
    }
    template<typename T, typename Tag>
    bool on_type(T, Tag)
    {
        return false;
    }
    template<typename T, typename Tag>
    bool on_enum(T, Tag)
    {
        return false;
    }
    template<typename T, typename Tag>
    bool on_set(T, Tag)
    {
        return false;
    }
    template<typename T, typename Tag>
    bool on_composite(T, Tag)
    {
        return false;
    }
    template<typename T, typename Tag>
    void on_enum_value(T, Tag)
    {
    }
    template<typename Tag>
    void on_set_choice(bool, Tag)
    {
    }
};

template<typename View, typename Cur>
struct same_byte
    : std::is_same<
          ::sbepp::byte_type_t<View>,
          typename std::remove_reference<Cur>::type::byte_type>
{
};

// dereferencing a cursor iterator constructs an entry from the cursor, which
// requires the cursor's byte type to convert to the view's
template<typename G, typename Cur>
void touch_group_deref(G g, Cur& c, std::true_type)
{
    auto r = g.cursor_range(c);
    auto it = r.begin();
    (void)*it;
    (void)it.operator->();
    for(auto e : g.cursor_range(c))
    {
        (void)e;
    }
}

template<typename G, typename Cur>
void touch_group_deref(G, Cur&, std::false_type)
{
}

template<typename G, typename Cur>
void touch_group_ro(G g, Cur& c)
{
    (void)g.size();
    (void)g.sbe_size();
    (void)g.empty();
    (void)G::max_size();
    (void)g.begin();
    (void)g.end();
    (void)g.front();
    (void)::sbepp::size_bytes(g);
    (void)::sbepp::get_header(g);
    (void)::sbepp::addressof(g);
    (void)g.cursor_range(c);
    (void)g.cursor_subrange(c, 0);
    (void)g.cursor_subrange(c, 0, 1);
    (void)g.cursor_begin(c);
    (void)g.cursor_end(c);
    auto r = g.cursor_range(c);
    auto it = r.begin();
    (void)(it == r.end());
    (void)(it != r.end());
    ++it;
    it++;
    (void)r.size();
    touch_group_deref(g, c, same_byte<G, Cur>{});
    for(auto e : g)
    {
        (void)e;
    }
    auto fi = g.begin();
    ++fi;
    fi++;
    (void)*fi;
    (void)fi.operator->();
    (void)(fi == g.end());
    (void)(fi != g.end());
}

template<typename G>
void touch_flat_ro(G g)
{
    (void)g[0];
    (void)g.back();
    auto it = g.begin();
    --it;
    it--;
    it += 1;
    it -= 1;
    (void)(it + 1);
    (void)(1 + it);
    (void)(it - 1);
    (void)(it - g.begin());
    (void)it[1];
    (void)(it < g.end());
    (void)(it <= g.end());
    (void)(it > g.end());
    (void)(it >= g.end());
}

template<typename G>
void touch_group_rw(G g)
{
    g.resize(1);
    g.clear();
    (void)::sbepp::fill_group_header(g, 1);
}

template<typename T>
void touch_scalar(T t)
{
    (void)t.value();
    (void)*t;
    (void)t.in_range();
    (void)T::min_value();
    (void)T::max_value();
    (void)(t == t);
    (void)(t != t);
    (void)(t < t);
    (void)(t <= t);
    (void)(t > t);
    (void)(t >= t);
    T u{};
    *u = *t;
}

template<typename T>
void touch_optional(T t)
{
    touch_scalar(t);
    (void)t.has_value();
    (void)static_cast<bool>(t);
    (void)t.value_or(typename T::value_type{});
    (void)T::null_value();
    T n{::sbepp::nullopt};
    (void)n;
}

// the (pointer, size, blockLength) constructor of entry views
template<typename E>
void touch_entry_ctor()
{
    typedef ::sbepp::byte_type_t<E> B;
    B* p = nullptr;
    E e{p, std::size_t{}, {}};
    (void)e;
}

template<typename A>
void touch_array_ro(A a)
{
    (void)a[0];
    (void)a.front();
    (void)a.back();
    (void)a.data();
    (void)a.empty();
    (void)a.size();
    (void)a.max_size();
    (void)a.begin();
    (void)a.end();
    (void)a.rbegin();
    (void)a.rend();
    (void)a.raw();
    (void)::sbepp::size_bytes(a);
    (void)::sbepp::addressof(a);
}

template<typename A>
void touch_strlen(A a, std::true_type)
{
    (void)a.strlen();
}

// strlen() is only instantiable for char arrays (string_length(const char*))
template<typename A>
void touch_strlen(A, std::false_type)
{
}

template<typename A>
void touch_static_array_ro(A a)
{
    touch_array_ro(a);
    touch_strlen(a, std::is_same<typename A::value_type, char>{});
    (void)a.strlen_r();
}

// a single-pass iterator: instantiates the input-iterator overloads (element by element insertion)
template<typename V>
struct input_it
{
    typedef std::input_iterator_tag iterator_category;
    typedef V value_type;
    typedef std::ptrdiff_t difference_type;
    typedef const V* pointer;
    typedef V reference;
    const V* p;
    V operator*() const
    {
        return *p;
    }
    input_it& operator++()
    {
        ++p;
        return *this;
    }
    input_it operator++(int)
    {
        input_it t = *this;
        ++p;
        return t;
    }
    friend bool operator==(input_it a, input_it b)
    {
        return a.p == b.p;
    }
    friend bool operator!=(input_it a, input_it b)
    {
        return a.p != b.p;
    }
};

template<typename A>
void touch_static_array_rw(A a)
{
    typedef typename A::value_type V;
    const V src[2] = {};
    (void)a.assign_string("x");
    (void)a.assign_string("x", ::sbepp::eos_null::single);
    (void)a.assign_string(src);
    (void)a.assign_range(src);
    a.fill(V{});
    (void)a.assign(1, V{});
    (void)a.assign(src, src + 1);
    (void)a.assign(input_it<V>{src}, input_it<V>{src + 1});
    (void)a.assign({V{}, V{}});
}

template<typename A>
void touch_dynamic_array_ro(A a)
{
    touch_array_ro(a);
    (void)a.sbe_size();
}

template<typename A>
void touch_dynamic_array_rw(A a)
{
    typedef typename A::value_type V;
    const V src[2] = {};
    (void)a.insert(a.begin(), input_it<V>{src}, input_it<V>{src + 1});
    a.clear();
    a.resize(1);
    a.resize(1, V{});
    a.resize(1, ::sbepp::default_init);
    a.push_back(V{});
    a.pop_back();
    (void)a.erase(a.begin());
    (void)a.erase(a.begin(), a.end());
    (void)a.insert(a.begin(), V{});
    (void)a.insert(a.begin(), 1, V{});
    (void)a.insert(a.begin(), src, src + 1);
    (void)a.insert(a.begin(), {V{}, V{}});
    a.assign(1, V{});
    a.assign(src, src + 1);
    a.assign(input_it<V>{src}, input_it<V>{src + 1});
    a.assign({V{}, V{}});
    a.assign_string("x");
    a.assign_range(src);
}
} // namespace vh
